---------------------------- MODULE NodeStartup ----------------------------
(* Start-up rules of a Tahoe-LAFS node outside the parsing of tahoe.cfg values
   (allmydata/node.py): the decision tables of docs/configuration.rst as operators.

     TubPortLocation   [node] tub.port x BASEDIR/client.port x tub.location x reveal-IP-address
                       -> not listening | refusal | (port, location, port file, probes)
                       (node._tub_portlocation, _convert_tub_port; create_main_tub / tub_listen_on
                       turn the result into Tub.listenOn / Tub.setLocation calls)
     ConnHandlers      [connections] tcp x availability of Tor / I2P x reveal-IP-address
                       -> refusal | which handler serves tcp / tor / i2p hints
                       (node.create_default_connection_handlers, create_tub)
     TubOptions        timeout.keepalive x timeout.disconnect -> Foolscap options (create_tub_options)
     ConfigPath        _Config.get_config_path(args...): join + normalise ".."
     OldConfig         pre-1.3 configuration files in BASEDIR abort the start-up
                       (docs/historical/configuration.rst, node._error_about_old_config_files)

   Texts are built by the Spec itself (TLC concatenates strings with \o), so the adapter only
   writes them into a tahoe.cfg and reads the real results back.  A value of tub.port /
   tub.location is [given, items]: `given` FALSE = the key does not appear, items = <<>> = the key
   is there with an empty value.

   A refusal carries the SET of problems the configuration has; which one the code reports first
   is not part of the contract. *)
EXTENDS Common, SequencesExt

RECURSIVE JoinStr(_, _)
JoinStr(s, sep) == IF s = <<>> THEN "" ELSE IF Len(s) = 1 THEN s[1] ELSE s[1] \o sep \o JoinStr(Tail(s), sep)
Txts(items) == [i \in DOMAIN items |-> items[i].txt]
Absent == [given |-> FALSE, items |-> <<>>]
Given(items) == [given |-> TRUE, items |-> items]

(* ------------------------------ tub.port items ----------------------------- *)
\* k: "bare"  a simple integer ("for backwards compatibility ... used as a TCP port number, like tcp:%d")
\*    "tcp"   tcp:N or tcp:N:options          (the port number is the second field)
\*    "tcpkw" tcp:port=N / tcp:interface=A:N  (keyword forms of the Twisted endpoint syntax, the second
\*            one is the documentation's own example)
\*    "listen" listen:tor / listen:i2p        (the provider builds the endpoint)
\*    "disabled"
Bare(n)       == [k |-> "bare", n |-> n, txt |-> ToString(n)]
Tcp(n)        == [k |-> "tcp", n |-> n, txt |-> "tcp:" \o ToString(n)]
TcpIf(n)      == [k |-> "tcp", n |-> n, txt |-> "tcp:" \o ToString(n) \o ":interface=127.0.0.1"]
TcpKw(n)      == [k |-> "tcpkw", n |-> n, txt |-> "tcp:port=" \o ToString(n)]
TcpIfFirst(n) == [k |-> "tcpkw", n |-> n, txt |-> "tcp:interface=127.0.0.1:" \o ToString(n)]
Listen(via)   == [k |-> "listen", n |-> 1, txt |-> "listen:" \o via]
DisabledItem  == [k |-> "disabled", n |-> 1, txt |-> "disabled"]

IsDisabled(v) == v.given /\ Len(v.items) = 1 /\ v.items[1].k = "disabled"
IsEmpty(v)    == v.given /\ v.items = <<>>
\* "tub.port cannot be 0 or tcp:0 ... the node is no longer willing to ask Twisted to allocate port numbers"
ZeroPort(items) == \E i \in DOMAIN items : items[i].k \in {"bare", "tcp", "tcpkw"} /\ items[i].n = 0
\* "if this contains a simple integer, it will be used as a TCP port number, like tcp:%d"
PortText(items) == IF Len(items) = 1 /\ items[1].k = "bare" THEN "tcp:" \o ToString(items[1].n)
                   ELSE JoinStr(Txts(items), ",")

(* ---------------------------- tub.location hints --------------------------- *)
\* k: "tcp" tcp:host:port, "legacy" host:port (the old spelling of a tcp hint), "tor", "i2p",
\*    "AUTO" the upper-case word, "other" anything else (taken verbatim), "disabled"
Hint(k, txt) == [k |-> k, txt |-> txt]
AUTO == Hint("AUTO", "AUTO")
RevealsIP(h) == h.k \in {"tcp", "legacy"}      \* "[node] tub.location contains any tcp: hints"

(* ------------------------------ the port table ----------------------------- *)
\* c = [port, pfile, loc : values; reveal : BOOLEAN; addrs : Seq(STRING); alloc : Nat]
\*   pfile = BASEDIR/client.port ("the descriptor that was used last time"), addrs = what probing the
\*   local interfaces would give, alloc = the port the kernel would hand out
EffPort(c) == IF c.port.given THEN c.port.items ELSE IF c.pfile.given THEN c.pfile.items ELSE <<Tcp(c.alloc)>>
EffLoc(c)  == IF c.loc.given THEN c.loc.items ELSE <<AUTO>>       \* "missing ... defaults to AUTO"
HasAuto(c) == \E i \in DOMAIN EffLoc(c) : EffLoc(c)[i].k = "AUTO"

Problems(c) ==
  LET pd == IsDisabled(c.port)  ld == IsDisabled(c.loc)
      pe == IsEmpty(c.port)     le == IsEmpty(c.loc)
      listening == ~pd /\ ~pe
      located   == ~ld /\ ~le
  IN   (IF pe THEN {"ValueError"} ELSE {})                      \* "If tub.port is present, it may not be empty"
  \cup (IF le THEN {"ValueError"} ELSE {})
  \cup (IF pd # ld THEN {"ValueError"} ELSE {})                 \* "must also be disabled, and vice versa"
  \cup (IF listening /\ ZeroPort(EffPort(c)) THEN {"PortAssignmentRequired"} ELSE {})
  \cup (IF located /\ ~c.reveal /\ HasAuto(c) THEN {"PrivacyError"} ELSE {})
  \cup (IF located /\ ~c.reveal /\ (\E i \in DOMAIN EffLoc(c) : RevealsIP(EffLoc(c)[i])) THEN {"PrivacyError"} ELSE {})
       \* AUTO needs "the TCP port number on which it is listening": a lone listen:tor / listen:i2p has none
  \cup (IF listening /\ located /\ HasAuto(c) /\ Len(EffPort(c)) = 1 /\ EffPort(c)[1].k = "listen" THEN {"ValueError"} ELSE {})

\* the location hints: AUTO is replaced by one tcp hint per local address, with the listening port
AutoHints(addrs, n) == [i \in DOMAIN addrs |-> "tcp:" \o addrs[i] \o ":" \o ToString(n)]
RECURSIVE LocHints(_, _, _)
LocHints(items, addrs, n) ==
  IF items = <<>> THEN <<>>
  ELSE (IF Head(items).k = "AUTO" THEN AutoHints(addrs, n) ELSE <<Head(items).txt>>) \o LocHints(Tail(items), addrs, n)

TubPortLocation(c) ==
  LET ep == EffPort(c)
      probs == Problems(c)
      none == [res |-> "none", errs |-> {}, port |-> "", loc |-> <<>>, pfile |-> c.pfile, alloc |-> FALSE, probe |-> FALSE]
  IN IF IsDisabled(c.port) /\ IsDisabled(c.loc) THEN none       \* "the node will not listen at all"
     ELSE IF probs # {} THEN [none EXCEPT !.res = "refuse", !.errs = probs]
     \* several endpoints and AUTO: which port the automatic hints carry is not documented - not judged
     ELSE IF HasAuto(c) /\ Len(ep) > 1 THEN [none EXCEPT !.res = "skip"]
     ELSE [res |-> "listen", errs |-> {},
           port |-> PortText(ep),
           loc |-> LocHints(EffLoc(c), c.addrs, ep[1].n),
           \* "tahoe.cfg overrides the individual file"; "If neither tub.port nor the port file is available, the node
           \* will ask the kernel ... The allocated port number will be written into a descriptor string in client.port"
           pfile |-> IF c.port.given \/ c.pfile.given THEN c.pfile ELSE Given(<<Tcp(c.alloc)>>),
           alloc |-> ~c.port.given /\ ~c.pfile.given,
           probe |-> HasAuto(c)]                                 \* "Don't probe for local addresses unless necessary"

\* classes for structural keys of disagreements
PortClass(c) ==
  LET ep == EffPort(c) IN
  IF HasAuto(c) /\ Len(ep) = 1 /\ ep[1].k = "tcpkw" THEN "auto_with_keyword_port"
  ELSE IF ~c.port.given THEN (IF c.pfile.given THEN "port_from_file" ELSE "port_allocated")
  ELSE IF IsDisabled(c.port) \/ IsDisabled(c.loc) THEN "disabled"
  ELSE IF HasAuto(c) THEN "auto" ELSE "explicit"

(* ------------------------- outbound connection handlers -------------------- *)
\* c = [tcp : [given, txt, name] (name = the value in lower case), tor, i2p : the handler is available,
\*      reveal : BOOLEAN]
ConnHandlers(c) ==
  LET name == IF c.tcp.given THEN c.tcp.name ELSE "tcp"        \* "section is missing entirely, or ... tcp = tcp"
      avail == [tcp |-> TRUE, tor |-> c.tor, i2p |-> c.i2p]
      probs == (IF name \notin {"tcp", "tor", "disabled"} THEN {"ValueError"} ELSE {})   \* incl. "tcp = i2p is invalid"
          \cup (IF name = "tor" /\ ~c.tor THEN {"ValueError"} ELSE {})
          \cup (IF ~c.reveal /\ name = "tcp" THEN {"PrivacyError"} ELSE {})    \* "set to tcp (or left as the default)"
      \* which handler serves hints of each type on the Tub; "none" = such hints are ignored
      serve(h) == IF h = "tcp" THEN (IF name = "disabled" THEN "none" ELSE name)
                  ELSE IF avail[h] THEN h ELSE "none"           \* "ignored if ... support libraries" are missing
  IN IF probs # {} THEN [res |-> "refuse", errs |-> probs, tcp |-> "", tor |-> "", i2p |-> ""]
     ELSE [res |-> "ok", errs |-> {}, tcp |-> serve("tcp"), tor |-> serve("tor"), i2p |-> serve("i2p")]
ConnClass(c) == IF c.tcp.given /\ c.tcp.name = "i2p" THEN "tcp_via_i2p" ELSE IF c.tcp.given THEN "tcp_" \o c.tcp.name ELSE "tcp_default"

(* ------------------------------- Tub options ------------------------------- *)
\* v = [given, ok, n, txt]: a value that is an integer (ok) or not; an empty value counts as not provided
TimeoutSet(v) == v.given /\ v.txt # ""
TubOptions(ka, dc) ==
  IF (TimeoutSet(ka) /\ ~ka.ok) \/ (TimeoutSet(dc) /\ ~dc.ok)
    THEN [res |-> "refuse", errs |-> {"ValueError"}, ka |-> 0, dc |-> 0, kaset |-> FALSE, dcset |-> FALSE]
    ELSE [res |-> "ok", errs |-> {},
          kaset |-> TimeoutSet(ka), ka |-> IF TimeoutSet(ka) THEN ka.n ELSE 240,    \* "The default value is 240"
          dcset |-> TimeoutSet(dc), dc |-> IF TimeoutSet(dc) THEN dc.n ELSE 0]      \* 0: "disable the disconnect timer"

(* -------------------------------- config paths ----------------------------- *)
\* get_config_path(args...): "an absolute path inside the config directory with any extra args join()-ed",
\* ".." re-expanded.  Result: how many levels above BASEDIR it ends, then the components below.
RECURSIVE Norm(_, _, _)
Norm(args, up, comps) ==
  IF args = <<>> THEN [up |-> up, comps |-> comps]
  ELSE LET a == Head(args) IN
       IF a = "." THEN Norm(Tail(args), up, comps)
       ELSE IF a = ".." THEN (IF comps = <<>> THEN Norm(Tail(args), up + 1, comps)
                              ELSE Norm(Tail(args), up, SubSeq(comps, 1, Len(comps) - 1)))
       ELSE Norm(Tail(args), up, Append(comps, a))
ConfigPath(args) == Norm(args, 0, <<>>)
PrivatePath(args) == ConfigPath(<<"private">> \o args)     \* judged only for args without ".."

(* --------------------------- old configuration files ----------------------- *)
\* docs/historical/configuration.rst: "If Tahoe-LAFS v1.9.0 or above detects the old configuration files at
\* start up it emits a warning and aborts the start up" - the table's files, except the port files that are
\* still in use, and except the file the node type generates itself (introducer.furl for an introducer)
OldFiles == {"nickname", "webport", "advertised_ip_addresses", "log_gatherer.furl", "keepalive_timeout",
             "disconnect_timeout", "introducer.furl", "helper.furl", "key_generator.furl", "stats_gatherer.furl",
             "no_storage", "readonly_storage", "sizelimit", "debug_discard_storage", "run_helper"}
\* "the node will look in BASEDIR/client.port (or BASEDIR/introducer.port, for introducers)"
PortFileName(nodetype) == IF nodetype = "introducer" THEN "introducer.port" ELSE "client.port"
Generated(nodetype) == IF nodetype = "introducer" THEN {"introducer.furl"} ELSE {}
OldConfig(nodetype, present) ==
  LET bad == (present \cap OldFiles) \ Generated(nodetype) IN
  IF bad = {} THEN [res |-> "ok", files |-> {}] ELSE [res |-> "refuse", files |-> bad]
=============================================================================
