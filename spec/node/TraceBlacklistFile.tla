-------------------------- MODULE TraceBlacklistFile --------------------------
(* A real gateway (real _Client + Blacklist + NodeMaker + web server on harness/webgrid.py; driver
   harness/nodemisc_driver.py --mode blacklist) against BlacklistFile.tla.

   consts: G = [type, kids] the objects the driver built (ids "o1".."o8"), si irrelevant to the Spec.
   events:
     write   lines (as the Spec's line records; the driver renders them: SI(o) sep why "\n"), mt (the mtime it set)
     remove  the file is deleted
     get     GET /uri/CAP(o)/path..[?t=json]: code (0 = the request never completed), msg (for a 403: the text/plain
             body or the <p> of the error page), body_ok (a file's contents came back intact), names (t=json listing)
     api     client.create_node_from_uri(cap of o): proh (ProhibitedNode?), isdir, read ("ok" | exception name), msg
   Every access first lets the gateway re-read the file by the mtime rule (BlRefresh).
   (Clause names stay short: TLC wraps printed tuples beyond 80 columns and the framework reads one-line tuples.) *)
EXTENDS BlacklistFile, Json, IOUtils, TLCExt, TLC

Traces == JsonDeserialize(IOEnv.TRACE_FILE)
VARIABLES tid, l, blf, blc, bad
tvars == <<tid, l, blf, blc, bad>>
Events == Traces[tid].events
Ev == Events[l]
G == [type |-> Traces[tid].consts.G.type, kids |-> Traces[tid].consts.G.kids]

NormLine(x) == CASE x.k = "blank" -> Blank [] x.k = "comment" -> Comment(x.txt) [] x.k = "entry" -> Entry(x.o, x.why, x.sep)
NormLines(ls) == [i \in DOMAIN ls |-> NormLine(ls[i])]

GetVerdict(e, E) ==
  LET x == WebGet(G, E, e.o, e.path, e.t)
      w == Walk(G, Prohibited(E), e.o, e.path, 1) IN
  IF x.code = 200 /\ x.served = "listing" /\ e.code = 0 /\ HasProhibitedMutableChild(G, E, w.obj)
    THEN "BW_json_listing_hangs_mutable_child"
  \* t=json of a prohibited object: a 403, or file-like metadata without any listing ("filenode"), is a refusal to serve it
  ELSE IF x.code = 403 /\ e.t = "json" /\ e.code = 200 /\ e.kind # "dirnode" /\ e.names = <<>> THEN ""
  ELSE IF e.code # x.code THEN "BW_status_" \o ToString(x.code) \o "_got_" \o ToString(e.code)
  ELSE IF x.code = 403 /\ e.msg # x.msg THEN "BW_reason_in_403"
  ELSE IF x.served = "contents" /\ ~e.body_ok THEN "BW_contents"
  ELSE IF x.served = "listing" /\ ToSet(e.names) # x.names THEN "BW_listing_names"
  ELSE ""
ApiVerdict(e, E) ==
  LET x == ApiNode(G, E, e.o) IN
  IF e.proh # x.proh THEN "BW_api_prohibited_node"
  ELSE IF e.isdir # x.isdir THEN "BW_api_directory_interface"
  ELSE IF e.read # x.read THEN "BW_api_read_" \o x.read
  ELSE IF x.proh /\ e.msg # x.msg THEN "BW_api_reason"
  ELSE ""

TraceInit == tid \in 1..Len(Traces) /\ l = 1 /\ blf = BlNone /\ blc = BlCold /\ bad = "none"
TraceNext ==
  /\ bad = "none" /\ l <= Len(Events)
  /\ LET e == Ev
         acc == e.ev \in {"get", "api"}
         blc2 == IF acc THEN Now(blc, blf) ELSE blc
         blf2 == CASE e.ev = "write" -> FileWrite(blf, NormLines(e.lines), e.mt) [] e.ev = "remove" -> BlRemove(blf) [] OTHER -> blf
         c == CASE e.ev = "get" -> GetVerdict(e, blc2.ids) [] e.ev = "api" -> ApiVerdict(e, blc2.ids)
                [] e.ev = "write" -> (IF WellFormed(NormLines(e.lines)) THEN "" ELSE "BW_driver_wrote_duplicate_entries")
                [] OTHER -> "" IN
       IF c = "" THEN /\ blf' = blf2 /\ blc' = blc2 /\ l' = l + 1 /\ bad' = "none"
                      /\ (l = Len(Events) => PrintT(<<"VF_ACCEPT", tid, l>>))
                 ELSE /\ bad' = c /\ UNCHANGED <<blf, blc, l>> /\ PrintT(<<"VF_REJECT", tid, l, c>>)
  /\ UNCHANGED tid
TraceSpec == TraceInit /\ [][TraceNext]_tvars
TraceOK == bad = "none"
=============================================================================
