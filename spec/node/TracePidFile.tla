----------------------------- MODULE TracePidFile -----------------------------
(* Histories of the real check_pid_process / cleanup_pidfile (harness/nodemisc_driver.py --mode pid:
   real functions on a real file, the process table and the lock scripted through stand-ins for psutil
   and filelock) against PidFile.tla.  Events: spawn / die (process table), lock (held or not),
   putfile (a file left by somebody: valid or garbage), rmfile, check (me, res), cleanup (res);
   every event carries the file as parsed afterwards. *)
EXTENDS PidFile, Json, IOUtils, TLCExt, TLC

Traces == JsonDeserialize(IOEnv.TRACE_FILE)
VARIABLES tid, l, P, bad
tvars == <<tid, l, P, bad>>
Events == Traces[tid].events
Ev == Events[l]
NormFile(f) == [ex |-> f.ex, valid |-> f.valid, pid |-> f.pid, start |-> f.start]

Spawn(pid, t) == [P EXCEPT !.procs = [q \in DOMAIN P.procs \cup {pid} |-> IF q = pid THEN t ELSE P.procs[q]]]
Die(pid) == [P EXCEPT !.procs = [q \in DOMAIN P.procs \ {pid} |-> P.procs[q]]]
Expected(e) ==
  CASE e.ev = "spawn" -> Ans(Spawn(e.pid, e.start), "")
    [] e.ev = "die" -> Ans(Die(e.pid), "")
    [] e.ev = "lock" -> Ans([P EXCEPT !.lock = e.held], "")
    [] e.ev = "putfile" -> Ans([P EXCEPT !.file = NormFile(e.put)], "")
    [] e.ev = "rmfile" -> Ans([P EXCEPT !.file = NoFile], "")
    [] e.ev = "check" -> Check(P, [pid |-> e.me.pid, start |-> e.me.start])
    [] e.ev = "cleanup" -> Cleanup(P)
Verdict(e) ==
  LET x == Expected(e) IN
  IF e.res # x.r THEN "PID_" \o e.ev \o "_" \o (IF x.r = "" THEN "none" ELSE x.r)
  ELSE IF NormFile(e.file) # x.P.file THEN "PID_file_after_" \o e.ev
  ELSE ""
TraceInit == tid \in 1..Len(Traces) /\ l = 1 /\ P = [file |-> NoFile, procs |-> <<>>, lock |-> FALSE] /\ bad = "none"
TraceNext ==
  /\ bad = "none" /\ l <= Len(Events)
  /\ LET c == Verdict(Ev) IN
       IF c = "" THEN /\ P' = Expected(Ev).P /\ l' = l + 1 /\ bad' = "none"
                      /\ (l = Len(Events) => PrintT(<<"VF_ACCEPT", tid, l>>))
                 ELSE /\ bad' = c /\ UNCHANGED <<P, l>> /\ PrintT(<<"VF_REJECT", tid, l, c>>)
  /\ UNCHANGED tid
TraceSpec == TraceInit /\ [][TraceNext]_tvars
TraceOK == bad = "none"
=============================================================================
