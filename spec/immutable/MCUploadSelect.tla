--------------------------- MODULE MCUploadSelect ---------------------------
(* Design-level model of one immutable upload over every mix of server modes,
   pre-existing shares, allocation plans and fault positions within the
   constants.  The uploader is shaped like Tahoe2ServerSelector.get_shareholders
   (survey with get_buckets, allocate_buckets per server, final happiness test,
   abort on failure), CHKUploader.set_shareholders (dies on a share number held
   by two trackers) and Encoder (push, _remove_shareholder with happiness
   re-check, close, abort of the landlords on error).  The properties are stated
   over the real store, independently of what the uploader believes. *)
EXTENDS UploadSelect

CONSTANTS Servers, NShares, Happy, ModeSet, MaxPre, MaxFaults

Shares == 0..(NShares - 1)
Buckets == Servers \X Shares

VARIABLES mode,      \* server -> mode
          pre,       \* server -> shares present before the upload (ground truth)
          St, holes, \* the store
          phase,     \* "survey" | "place" | "push" | "close" | "done"
          todo,      \* servers still to be surveyed / queried in this phase
          bad,       \* servers that answered with an error
          found,     \* uploader: <<s, sh>> it was told are already there
          landlords, \* uploader: buckets it holds writers for
          pushed, closed,
          faults,
          result,    \* "none" | "success" | "unhappy" | "died"
          claim      \* [placed, found] reported on success
vars == <<mode, pre, St, holes, phase, todo, bad, found, landlords, pushed, closed, faults, result, claim>>

Init ==
  /\ mode \in [Servers -> ModeSet]
  /\ pre \in [Servers -> {X \in SUBSET Shares : Cardinality(X) <= MaxPre}]
  /\ St = [s \in Servers |-> [fin |-> pre[s], inc |-> {}]]
  /\ holes = {} /\ phase = "survey" /\ todo = Servers /\ bad = {} /\ found = {} /\ landlords = {}
  /\ pushed = {} /\ closed = {} /\ faults = 0 /\ result = "none" /\ claim = [placed |-> {}, found |-> {}]

Next1(S) == CHOOSE s \in S : TRUE     \* servers are independent of each other: a fixed order loses nothing

\* get_buckets
Survey ==
  /\ phase = "survey" /\ todo # {}
  /\ LET s == Next1(todo) IN
     /\ todo' = todo \ {s}
     /\ IF mode[s] = "failing"
          THEN bad' = bad \cup {s} /\ UNCHANGED found
          ELSE found' = found \cup ({s} \X FinalOn(St, s)) /\ UNCHANGED bad
  /\ UNCHANGED <<mode, pre, St, holes, phase, landlords, pushed, closed, faults, result, claim>>

StartPlace ==
  /\ phase = "survey" /\ todo = {}
  /\ phase' = "place" /\ todo' = Servers \ bad
  /\ UNCHANGED <<mode, pre, St, holes, bad, found, landlords, pushed, closed, faults, result, claim>>

\* allocate_buckets with any plan (the placement algorithm itself is C07)
Allocate ==
  /\ phase = "place" /\ todo # {}
  /\ LET s == Next1(todo) IN
     \E asked \in SUBSET Shares :
       /\ todo' = todo \ {s}
       /\ IF mode[s] = "failing"
            THEN bad' = bad \cup {s} /\ UNCHANGED <<St, found, landlords>>
            ELSE LET allocated == IF AcceptsWrites(mode[s]) THEN AllocCandidates(St, s, asked) ELSE {}
                 IN /\ found' = found \cup ({s} \X AllocAlready(St, s))
                    /\ landlords' = landlords \cup ({s} \X allocated)
                    /\ St' = ApplyAllocate(St, s, allocated)
                    /\ UNCHANGED bad
  /\ UNCHANGED <<mode, pre, holes, phase, pushed, closed, faults, result, claim>>

AbortAll(T, L) == [s \in Servers |-> [T[s] EXCEPT !.inc = @ \ {b[2] : b \in {x \in L : x[1] = s}}]]

\* the final test of get_shareholders; then set_shareholders
EndPlace ==
  /\ phase = "place" /\ todo = {}
  /\ IF HappinessOfPairs(found \cup landlords) < Happy
       THEN /\ result' = "unhappy" /\ phase' = "done" /\ St' = AbortAll(St, landlords) /\ landlords' = {}
       ELSE IF \E a, b \in landlords : a # b /\ a[2] = b[2]
         THEN \* AssertionError in CHKUploader.set_shareholders: the writers are never aborted
              /\ result' = "died" /\ phase' = "done" /\ UNCHANGED <<St, landlords>>
         ELSE /\ phase' = "push" /\ UNCHANGED <<St, landlords, result>>
  /\ UNCHANGED <<mode, pre, holes, todo, bad, found, pushed, closed, faults, claim>>

\* Encoder._remove_shareholder: abort the bucket, forget it, re-check happiness
Remove(b) ==
  LET L == landlords \ {b}
      T == ApplyAbort(St, b[1], b[2])
  IN IF HappinessOfPairs(found \cup L) < Happy
       THEN /\ result' = "unhappy" /\ phase' = "done" /\ St' = AbortAll(T, L) /\ landlords' = {}
       ELSE /\ St' = T /\ landlords' = L /\ UNCHANGED <<result, phase>>

Push ==
  /\ phase = "push" /\ landlords \ pushed # {}
  /\ LET b == Next1(landlords \ pushed) IN
     \/ /\ pushed' = pushed \cup {b}
        /\ UNCHANGED <<St, holes, landlords, faults, result, phase>>
     \/ /\ faults < MaxFaults /\ faults' = faults + 1
        /\ holes' = holes \cup {b}            \* a write was not executed
        /\ Remove(b) /\ UNCHANGED pushed
  /\ UNCHANGED <<mode, pre, todo, bad, found, closed, claim>>

StartClose ==
  /\ phase = "push" /\ landlords \ pushed = {}
  /\ phase' = "close"
  /\ UNCHANGED <<mode, pre, St, holes, todo, bad, found, landlords, pushed, closed, faults, result, claim>>

Close ==
  /\ phase = "close" /\ landlords \ closed # {}
  /\ LET b == Next1(landlords \ closed) IN
     \/ /\ closed' = closed \cup {b} /\ St' = ApplyClose(St, b[1], b[2])
        /\ UNCHANGED <<landlords, faults, result, phase>>
     \/ /\ faults < MaxFaults /\ faults' = faults + 1
        /\ Remove(b) /\ UNCHANGED closed
  /\ UNCHANGED <<mode, pre, holes, todo, bad, found, pushed, claim>>

\* UploadSucceeds: only under the guard of the statement
Finish ==
  /\ phase = "close" /\ landlords \ closed = {}
  /\ SuccessGuard(St, holes, landlords, found, Happy)
  /\ result' = "success" /\ phase' = "done" /\ claim' = [placed |-> landlords, found |-> found]
  /\ UNCHANGED <<mode, pre, St, holes, todo, bad, found, landlords, pushed, closed, faults>>

Done == phase = "done" /\ UNCHANGED vars

Next == Survey \/ StartPlace \/ Allocate \/ EndPlace \/ Push \/ StartClose \/ Close \/ Finish \/ Done
Spec == Init /\ [][Next]_vars

(* ---- the statement, over the real store ---------------------------------- *)
Really(P) == {p \in P : p[2] \in FinalOn(St, p[1])}
C06_SuccessMeetsHappiness ==
  result = "success" => HappinessOfPairs(Really(claim.placed \cup claim.found)) >= Happy
C06_PlacedFinalComplete ==
  result = "success" => \A p \in claim.placed : p[2] \in FinalOn(St, p[1]) /\ p \notin holes
C06_NoPartialVisible == NoPartialVisible(St, holes)
\* ground truth: what could ever be reached on this grid
Reachable == MaxMatching([s \in Servers |-> IF mode[s] = "failing" THEN {}
                                             ELSE IF AcceptsWrites(mode[s]) THEN Shares ELSE pre[s]])
C06_UnreachableFails == Reachable < Happy => result # "success"
C06_ErrorClass == phase = "done" => result \in {"success", "unhappy", "died"}
\* a failed upload leaves nothing of its own visible, and nothing incoming unless it died
C06_FailureLeavesNoIncoming == result = "unhappy" => \A s \in Servers : IncomingOn(St, s) = {}
\* deadlock checking is on: a reachable state with no successor and no result would be a hang
=============================================================================
