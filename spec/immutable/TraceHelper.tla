---------------------------- MODULE TraceHelper ----------------------------
(* Trace validation of real helper-assisted uploads against Helper.tla (C44).
   One trace = one scenario of harness/helper_driver.py:
     consts  Size, Chunk, N, pre (share numbers already on the grid)
     events  start   answer of Helper.remote_upload_chk (present | session) and the helper's
                     incoming / encoding files at that moment
             get_size, fetch (read_encrypted offset/length/result), get_all_encoding_parameters:
                     the helper->client calls in delivery order, each with the injected fault ("" = none)
             end     outcome of the client's upload; caps and share bytes compared with a direct
                     upload of the same data on a twin grid; buckets allocated / written; files left
             lose_shares  share files deleted by the driver between uploads
   The verdict of an event is the first clause that fails. *)
EXTENDS Helper, Json, IOUtils, TLCExt

Traces == JsonDeserialize(IOEnv.TRACE_FILE)

VARIABLES tid, l, H, bad
tvars == <<tid, l, H, bad>>

Tr == Traces[tid]
Events == Tr.events
Ev == Events[l]
Cn == [Size |-> Tr.consts.Size, Chunk |-> Tr.consts.Chunk, N |-> Tr.consts.N, ResumeAt |-> "fetched"]

V(c, s) == [c |-> c, s |-> s]
\* only failures the driver injected interrupt a session legitimately; any other failure of a
\* helper->client call is a disagreement
Injected(f) == f \in {"raise", "disconnect"}
IncSize(S) == IF S.inc.present THEN Len(S.inc.data) ELSE 0 - 1
FilesOK(S, e) == e.incoming = IncSize(S) /\ e.encoding = S.enc.present
\* the rename of the complete incoming file happens inside the helper, before the encoder asks for parameters
Settled(S) == IF FetchComplete(Cn, S) THEN FetchDone(Cn, S) ELSE S

\* joint uploads (two clients, one file, one helper, no injected faults): the second upload_chk finds the first session
Joint == "joint" \in DOMAIN Tr.consts /\ Tr.consts.joint
VStart(e) ==
  IF H.mode = "session" /\ Joint /\ H.sess.active
    THEN (IF e.answer # JoinRes(Cn, H) THEN V("C44_JoinActiveSession", H)
          \* (a fetch event is logged when the client answers; the helper appends the chunk when the answer reaches it,
          \*  which may be after this call: the incoming file may lag behind, it is never ahead)
          ELSE IF e.incoming > IncSize(H) /\ ~FilesOK(Settled(H), e) THEN V("C44_PersistedLength", H)
          ELSE V("", Join(Cn, H)))
  \* joint: the helper's look at the grid for this request may have run while the other client's session was still
  \* pushing shares (it is asynchronous and was started before that session ended): "not there yet, new session" is an
  \* honest answer then - the file is uploaded a second time, onto shares that are found in place
  ELSE IF Joint /\ H.mode = "done" /\ e.answer = "session" THEN
       (IF ~FilesOK(H, e) THEN V("C44_PersistedLength", H) ELSE V("", Start(Cn, H)))
  ELSE IF H.mode = "session" THEN V("C44_Protocol_start_in_session", H)
  ELSE IF ~FilesOK(H, e) THEN V("C44_PersistedLength", H)
  ELSE IF e.answer # StartRes(Cn, H) THEN V("C44_AlreadyPresent", H)
  ELSE IF e.answer = "present" THEN V("", AlreadyPresent(Cn, H))
  ELSE V("", Start(Cn, H))

VGetSize(e) ==
  IF ~(H.sess.active /\ ~H.sess.sized /\ NeedsFetch(H)) THEN V("C44_Protocol_get_size", H)
  ELSE IF e.fault # "" /\ ~Injected(e.fault) THEN V("C44_ClientCallFailed:" \o e.fault, H)
  ELSE IF e.fault # "" THEN V("", Interrupt(H))
  ELSE V("", GotSize(Cn, H))

VFetch(e) ==
  IF ~CanFetch(Cn, H) THEN V("C44_Protocol_fetch", H)
  ELSE IF e.offset # FetchReq(Cn, H).offset THEN V("C44_ResumeAtFetched", H)
  ELSE IF e.length # FetchReq(Cn, H).length THEN V("C44_ChunkLength", H)
  ELSE IF e.fault # "" /\ ~Injected(e.fault) THEN V("C44_ClientCallFailed:" \o e.fault, H)
  ELSE IF e.fault # "" THEN V("", Interrupt(H))
  ELSE IF ~ClientCanServe(H, e.offset) THEN V("C44_ReaderForward", H)
  ELSE IF e.ngot # e.length \/ ~e.dataok THEN V("C44_FetchData", H)
  ELSE V("", Fetch(Cn, H))

VParams(e) ==
  LET S == Settled(H) IN
  IF ~CanEncode(S) THEN V("C44_EncodeAfterFullFetch", H)
  ELSE IF ~e.encoding \/ e.incoming THEN V("C44_PersistedLength", H)
  ELSE IF e.fault # "" /\ ~Injected(e.fault) THEN V("C44_ClientCallFailed:" \o e.fault, H)
  ELSE IF e.fault # "" THEN V("", Interrupt(S))
  ELSE V("", S)

VEnd(e) ==
  IF e.outcome = "hang" THEN V("C44_Terminates", H)
  ELSE IF e.active # 0 THEN V("C44_SessionLeftActive", H)
  ELSE IF e.outcome = "failed"
    THEN IF H.mode # "interrupted" THEN V("C44_UnexpectedFailure:" \o e.error, H)
         ELSE IF ~FilesOK(H, e) THEN V("C44_PersistedLength", H)
         ELSE IF e.allocated # 0 \/ e.writes # 0 \/ ToSet(e.present) # PresentShares(Cn, H) THEN V("C44_FailedUploadPushed", H)
         ELSE V("", H)
  ELSE \* outcome = "ok"
    IF H.mode = "present"
      THEN IF e.allocated # 0 \/ e.writes # 0 \/ e.reported_pushed # 0 \/ e.fetched # 0 THEN V("C44_AlreadyPresentNoPush", H)
           ELSE IF (e.capeq /\ e.vcapeq) # (H.result.data = Ct(Cn)) THEN V("C44_CapEqual", H)
           ELSE IF ~e.shareseq \/ ToSet(e.present) # PresentShares(Cn, H) THEN V("C44_SharesEqual", H)
           ELSE IF ~FilesOK(H, e) THEN V("C44_PersistedLength", H)
           ELSE V("", H)
    ELSE
      LET S == Settled(H) IN
      IF ~CanEncode(S) THEN V("C44_SucceededWithoutCiphertext", H)
      ELSE LET T == EncodePush(Cn, S) IN
        IF e.fetched # S.sess.got THEN V("C44_NoRefetch", H)
        ELSE IF (e.capeq /\ e.vcapeq) # (T.result.data = Ct(Cn)) THEN V("C44_CapEqual", H)
        ELSE IF e.shareseq # (\A n \in Shn(Cn) : T.grid[n].present => T.grid[n].data = Ct(Cn)) THEN V("C44_SharesEqual", H)
        ELSE IF ToSet(e.present) # PresentShares(Cn, T) THEN V("C44_Complete", H)
        ELSE IF e.allocated < T.pushes - S.pushes \/ e.reported_pushed # e.allocated THEN V("C44_PushCount", H)
        ELSE IF ~FilesOK(T, e) THEN V("C44_FilesCleaned", H)
        ELSE V("", T)

\* joint uploads: each client's own result (jend, in arrival order), then the state of grid and helper (jfinal).  The first
\* result of a session ends it (encode + push happened); a client that shared that session, or came after it, adds nothing
VJEnd(e) ==
  IF e.outcome # "ok" THEN V("C44_UnexpectedFailure:" \o e.error, H)
  ELSE IF ~e.capeq THEN V("C44_CapEqual", H)
  ELSE IF H.mode = "session"
    THEN LET S == Settled(H) IN
         IF ~CanEncode(S) THEN V("C44_SucceededWithoutCiphertext", H) ELSE V("", EncodePush(Cn, S))
  ELSE V("", H)
VJFinal(e) ==
  IF e.outcome = "hang" THEN V("C44_Terminates", H)
  ELSE IF e.active # 0 THEN V("C44_SessionLeftActive", H)
  ELSE IF e.outcome # "ok" THEN V("C44_UnexpectedFailure:" \o e.error, H)
  ELSE IF H.mode = "session" THEN V("C44_SessionLeftActive", H)
  ELSE IF ~e.shareseq THEN V("C44_SharesEqual", H)
  ELSE IF ToSet(e.present) # PresentShares(Cn, H) THEN V("C44_Complete", H)
  ELSE IF ~FilesOK(H, e) THEN V("C44_FilesCleaned", H)
  ELSE V("", H)

VLose(e) == V("", LoseShares(Cn, H, ToSet(e.present)))

Verdict(e) ==
  CASE e.ev = "start" -> VStart(e)
    [] e.ev = "get_size" -> VGetSize(e)
    [] e.ev = "fetch" -> VFetch(e)
    [] e.ev = "get_all_encoding_parameters" -> VParams(e)
    [] e.ev = "end" -> VEnd(e)
    [] e.ev = "lose_shares" -> VLose(e)
    [] e.ev = "jend" -> VJEnd(e)
    [] e.ev = "jfinal" -> VJFinal(e)
    [] OTHER -> V("unknown_event", H)

\* the Spec's own invariants, evaluated on every state of a real execution
StateOK(S) == /\ S.inc.present => IsPrefixOf(S.inc.data, Ct(Cn))
              /\ S.enc.present => S.enc.data = Ct(Cn)
              /\ \A n \in Shn(Cn) : S.grid[n].present => S.grid[n].data = Ct(Cn)

TraceInit ==
  /\ tid \in 1..Len(Traces)
  /\ l = 1
  /\ H = InitH(Cn, ToSet(Traces[tid].consts.pre))
  /\ bad = "none"

TraceNext ==
  /\ bad = "none"
  /\ l <= Len(Events)
  /\ LET v == Verdict(Ev)
         c == IF v.c # "" THEN v.c ELSE IF ~StateOK(v.s) THEN "C44_StateOK" ELSE ""
     IN IF c = ""
          THEN /\ H' = v.s /\ l' = l + 1 /\ bad' = "none"
               /\ (l = Len(Events) => PrintT(<<"VF_ACCEPT", tid, l>>))
          ELSE /\ bad' = c /\ UNCHANGED <<H, l>>
               /\ PrintT(<<"VF_REJECT", tid, l, c>>)
  /\ UNCHANGED tid

TraceSpec == TraceInit /\ [][TraceNext]_tvars
TraceOK == bad = "none"
=============================================================================
