-------------------------- MODULE TraceHappiness --------------------------
(* TRACE mode for C08: each trace is one relation (consts.adj : server ->
   shares) and one event per construction of the sharemap dict that the real
   servers_of_happiness was called with; the event carries the integer the
   code returned.  TLC computes the maximum matching itself (augmenting-path
   operator for large relations) and accepts an event only if the two agree. *)
EXTENDS Happiness, Json, IOUtils, TLCExt

Traces == JsonDeserialize(IOEnv.TRACE_FILE)

VARIABLES tid, l, mm, bad
tvars == <<tid, l, mm, bad>>

Events == Traces[tid].events
Ev == Events[l]
AdjOfTrace(t) == [s \in DOMAIN Traces[t].consts.adj |-> ToSet(Traces[t].consts.adj[s])]

Verdict(e) ==
  IF e.ev # "Happiness" THEN "unknown_event"
  ELSE IF e.err # "" THEN "C08_no_value"
  ELSE IF e.got # mm THEN "C08_value_is_maximum_matching"
  ELSE ""

TraceInit ==
  /\ tid \in 1..Len(Traces)
  /\ l = 0
  /\ mm = -1
  /\ bad = "none"

\* first step: the Spec's value for this relation (done in a step so that TLC's workers share the work)
Setup ==
  /\ l = 0
  /\ l' = 1
  /\ mm' = MaxMatching(AdjOfTrace(tid))
  /\ UNCHANGED <<tid, bad>>

Replay ==
  /\ bad = "none"
  /\ l >= 1 /\ l <= Len(Events)
  /\ LET c == Verdict(Ev)
     IN IF c = ""
          THEN /\ l' = l + 1 /\ bad' = "none"
               /\ (l = Len(Events) => PrintT(<<"VF_ACCEPT", tid, l>>))
          ELSE /\ bad' = c /\ UNCHANGED l
               /\ PrintT(<<"VF_REJECT", tid, l, c>>)
  /\ UNCHANGED <<tid, mm>>

TraceNext == Setup \/ Replay

TraceSpec == TraceInit /\ [][TraceNext]_tvars
TraceOK == bad = "none"
\* the Spec's own two algorithms agree on every recorded relation small enough for the brute force
AlgorithmsAgree == LET a == AdjOfTrace(tid) IN
                   (l = 1 /\ Cardinality(DOMAIN a) <= 7 /\ NumEdges(a) <= 30) => MaxMatchingRec(a) = MaxMatchingAug(a)
=============================================================================
