------------------------ MODULE TraceImmutableReads ------------------------
(* Trace validation of real uploads and reads (harness/immutable_driver.py) against
   Layout.tla and the reader-level operators of DownloadReads.tla.

   One trace = one file on one grid:
     consts  [size, k, N, maxseg, version, readers]
     events  Upload     what the real uploader committed to: cap fields, UEB fields read back from a
                        share file, the share header (offset table), get_allocated_size(), length of
                        every share's data on disk, number of server calls
             NodeSizes  the six numbers DownloadNode._calculate_sizes derived
             Read       reader r starts node.read(consumer, off, size)   (size -1 = None)
             Write      the consumer of r received len bytes; matches = they equal the plaintext at
                        the reader's position (decided by the observer in the driver)
             Pause / Resume / Stop   the consumer of r called the producer (inwrite = from inside write())
             Done       the Deferred of read r fired: "ok" | "stopped" | "error"
             End        the grid is quiescent, every paused reader has been resumed
   The verdict of an event is the name of the first clause that fails ("" = accepted). *)
EXTENDS DownloadReads, Json, IOUtils, TLCExt

Traces == JsonDeserialize(IOEnv.TRACE_FILE)

VARIABLES tid, l, R, bad
tvars == <<tid, l, R, bad>>

C == Traces[tid].consts
Events == Traces[tid].events
Ev == Events[l]

Lit == IsLit(C.size)
Seg == SegSize(C.size, C.k, C.maxseg)
D == Derived(C.size, C.k, C.N, C.maxseg, C.version)

NewR == [st |-> "new", pos |-> 0, end |-> 0, budget |-> Unlimited]
V(c, s) == [c |-> c, s |-> s]

(* ---- C01: what the uploader wrote ------------------------------------------------ *)
VUpload(e) ==
  IF e.outcome # "ok" THEN V("C01_upload_failed", R)
  ELSE IF e.lit # Lit THEN V("C01_C05_literal_threshold", R)
  ELSE IF Lit THEN (IF e.calls # 0 THEN V("C05_literal_contacted_servers", R)
                    ELSE IF e.litlen # C.size THEN V("C01_C05_literal_length", R) ELSE V("", R))
  ELSE IF e.cap # [k |-> C.k, N |-> C.N, size |-> C.size] THEN V("C01_cap_fields", R)
  ELSE IF e.ueb.segment_size # D.segment_size THEN V("C01_ueb_segment_size", R)
  ELSE IF e.ueb.num_segments # D.num_segments THEN V("C01_ueb_num_segments", R)
  ELSE IF e.ueb.size # C.size \/ e.ueb.needed_shares # C.k \/ e.ueb.total_shares # C.N THEN V("C01_ueb_size_k_n", R)
  ELSE IF e.ueb.codec_params # <<D.segment_size, C.k, C.N>> THEN V("C01_ueb_codec_params", R)
  ELSE IF e.ueb.tail_codec_params # <<D.tail_padded, C.k, C.N>> THEN V("C01_ueb_tail_codec_params", R)
  ELSE IF e.ueb_len # D.ueb_size THEN V("C01_ueb_length", R)
  ELSE IF e.hdr.version # C.version THEN V("C01_header_version", R)
  ELSE IF e.hdr.block_size # D.block_size THEN V("C01_header_block_size", R)
  ELSE IF e.hdr.data_size # D.share_data_size THEN V("C01_header_data_size", R)
  ELSE IF [f \in DOMAIN D.offsets |-> e.hdr[f]] # D.offsets THEN V("C01_offset_table", R)
  ELSE IF e.allocated # D.allocated THEN V("C01_allocated_size", R)
  ELSE IF \E i \in 1..Len(e.share_lens) : e.share_lens[i] # D.allocated THEN V("C01_share_length_on_disk", R)
  ELSE IF e.nshares # C.N THEN V("C01_shares_placed", R)
  ELSE V("", R)

VNodeSizes(e) ==
  IF e.segment_size # Seg THEN V("C01_node_segment_size", R)
  ELSE IF [f \in DOMAIN DlSizes(C.size, C.k, Seg) |-> e[f]] # DlSizes(C.size, C.k, Seg) THEN V("C01_node_calculate_sizes", R)
  ELSE V("", R)

(* ---- C01 / C04: reads ---------------------------------------------------------------- *)
VRead(e) ==
  LET c == IF Lit THEN LitSlice(C.size, e.off, e.size).hi - LitSlice(C.size, e.off, e.size).lo
                  ELSE ClipSize(C.size, e.off, e.size)
      lo == IF Lit THEN LitSlice(C.size, e.off, e.size).lo ELSE e.off
  IN IF R[e.r].st # "new" THEN V("harness_reader_reused", R)
     ELSE V("", [R EXCEPT ![e.r] = [st |-> "run", pos |-> lo, end |-> lo + c, budget |-> Unlimited]])

VWrite(e) ==
  LET r == R[e.r]
      want == IF Lit THEN r.end - r.pos ELSE NextPieceLen(C.size, Seg, r.pos, r.end)
  IN IF r.st # "run" THEN V("C04_write_to_finished_or_stopped_reader", R)
     ELSE IF r.budget = 0 THEN V("C04_pause_not_respected", R)
     ELSE IF r.pos >= r.end THEN V("C01_C04_bytes_beyond_slice", R)
     ELSE IF e.len # want THEN V("C01_C04_piece_length", R)
     ELSE IF ~e.matches THEN V("C01_C04_bytes_differ", R)
     ELSE V("", [R EXCEPT ![e.r].pos = @ + e.len, ![e.r].budget = IF @ > 0 THEN @ - 1 ELSE @])

VPause(e) == IF R[e.r].st # "run" THEN V("harness_pause_on_finished_reader", R)
             ELSE V("", [R EXCEPT ![e.r].budget = IF e.inwrite THEN 0 ELSE 1])
VResume(e) == IF R[e.r].st # "run" THEN V("harness_resume_on_finished_reader", R)
              ELSE V("", [R EXCEPT ![e.r].budget = Unlimited])
VStop(e) == IF R[e.r].st # "run" THEN V("harness_stop_on_finished_reader", R)
            ELSE V("", [R EXCEPT ![e.r].st = "stopping"])

VDone(e) ==
  LET r == R[e.r] IN
  IF e.res = "ok" THEN
       (IF r.st # "run" THEN V("C04_success_reported_for_stopped_reader", R)
        ELSE IF r.pos # r.end THEN V("C01_C04_short_read", R)
        ELSE V("", [R EXCEPT ![e.r].st = "done"]))
  ELSE IF e.res = "stopped" THEN
       (IF r.st # "stopping" THEN V("C04_stop_reported_without_stop", R)
        ELSE V("", [R EXCEPT ![e.r].st = "stopped"]))
  ELSE V("C01_C04_read_failed", R)

\* isolation: at quiescence every read has completed (the driver resumed every paused consumer before)
VEnd(e) ==
  IF \E r \in DOMAIN R : R[r].st = "run" THEN V("C01_C04_Isolation_read_never_completed", R)
  ELSE IF \E r \in DOMAIN R : R[r].st = "stopping" THEN V("C04_stop_never_reported", R)
  ELSE V("", R)

Verdict(e) ==
  CASE e.ev = "Upload"    -> VUpload(e)
    [] e.ev = "NodeSizes" -> VNodeSizes(e)
    [] e.ev = "Read"      -> VRead(e)
    [] e.ev = "Write"     -> VWrite(e)
    [] e.ev = "Pause"     -> VPause(e)
    [] e.ev = "Resume"    -> VResume(e)
    [] e.ev = "Stop"      -> VStop(e)
    [] e.ev = "Done"      -> VDone(e)
    [] e.ev = "End"       -> VEnd(e)
    [] OTHER              -> V("unknown_event", R)

TraceInit ==
  /\ tid \in 1..Len(Traces)
  /\ l = 1
  /\ R = [r \in ToSet(Traces[tid].consts.readers) |-> NewR]
  /\ bad = "none"

TraceNext ==
  /\ bad = "none"
  /\ l <= Len(Events)
  /\ LET v == Verdict(Ev)
         c == v.c
     IN IF c = ""
          THEN /\ R' = v.s /\ l' = l + 1 /\ bad' = "none"
               /\ (l = Len(Events) => PrintT(<<"VF_ACCEPT", tid, l>>))
          ELSE /\ bad' = c /\ UNCHANGED <<R, l>>
               /\ PrintT(<<"VF_REJECT", tid, l, c>>)
  /\ UNCHANGED tid

TraceSpec == TraceInit /\ [][TraceNext]_tvars
TraceOK == bad = "none"
=============================================================================
