-------------------------- MODULE TracePlacement --------------------------
(* TRACE mode for C07: each trace is one layout (consts: W, R, n, ex) and one
   event per distinct result of the real share_placement(peers, readonly_peers,
   shares, peers_to_shares) over several namings / insertion orders of the same
   layout.  TLC judges each returned placement with the clauses of the
   statement (Happiness.tla): complete, read-only servers respected, spread
   equal to the optimum (closed form; brute force as a cross-check on small
   layouts).  For a rejected placement the clause name carries a structural
   cause, evaluated here from the intermediate results the driver observed
   (results of the three matching phases and edges of the flow graph that are
   not in the server map it was built from). *)
EXTENDS Happiness, Json, IOUtils, TLCExt

Traces == JsonDeserialize(IOEnv.TRACE_FILE)

VARIABLES tid, l, best, bad
tvars == <<tid, l, best, bad>>

C == Traces[tid].consts
Events == Traces[tid].events
Ev == Events[l]

WOf(c) == ToSet(c.W)
ROf(c) == ToSet(c.R)
SharesOf(c) == 0..(c.n - 1)
ExOf(c) == [p \in WOf(c) \cup ROf(c) |-> ToSet(c.ex[p])]
Key(sh) == ToString(sh)
Keys(c) == {Key(sh) : sh \in SharesOf(c)}
\* the returned dict as a function over the share numbers it has keys for
MapOf(c, jm) == [sh \in {x \in SharesOf(c) : Key(x) \in DOMAIN jm} |-> jm[Key(sh)]]
PairsOf(seq) == {<<seq[i][1], seq[i][2]>> : i \in 1..Len(seq)}

\* ---- causes -------------------------------------------------------------
\* read-only server r got share sh it does not hold
BadRO(c, m) == {<<m[sh], sh>> : sh \in {x \in DOMAIN m : m[x] \in ROf(c) /\ x \notin ExOf(c)[m[x]]}}
\* cause 1: the pair is an edge of the phase-1 flow graph although it is not in the read-only server
\* map (the rows of the graph share one list), and the phase-1 matching chose it
FromExtraEdge(e, pr) == pr \in PairsOf(e.ph[1].extra) /\ Key(pr[2]) \in DOMAIN e.ph[1].m /\ e.ph[1].m[Key(pr[2])] = pr[1]
ROCause(c, e, m) == IF \A pr \in BadRO(c, m) : FromExtraEdge(e, pr) THEN "flowgraph_extra_edge" ELSE "other"

Used(m) == Range(m)
UnusedW(c, m) == WOf(c) \ Used(m)
Phase1Shares(e) == {sh \in 0..64 : Key(sh) \in DOMAIN e.ph[1].m /\ e.ph[1].m[Key(sh)] # "-"}
\* cause 2: a writable server that holds shares, all of which were claimed by the read-only phase, is
\* removed from the candidate servers of the later phases (share_placement: `new_peers.remove(peer)`)
\* and ends up unused.  Each such server explains at most one missing unit of spread.
DroppedW(c, e) == {w \in WOf(c) : ExOf(c)[w] \cap SharesOf(c) # {} /\ (ExOf(c)[w] \cap SharesOf(c)) \subseteq Phase1Shares(e)}
SpreadCause(c, e, m, deficit) ==
  IF UnusedW(c, m) = {} THEN "readonly_matching_not_maximum"
  ELSE IF deficit <= Cardinality(UnusedW(c, m) \cap DroppedW(c, e)) THEN "writable_dropped_after_readonly_phase"
  ELSE "other"

Verdict(c, e) ==
  IF e.ev # "Place" THEN "unknown_event"
  ELSE IF e.err # "" THEN "C07_no_placement"
  ELSE IF DOMAIN e.m # Keys(c) THEN "C07_Complete"
  ELSE LET m == MapOf(c, e.m) IN
       IF ~OnKnownServers(m, WOf(c), ROf(c)) THEN "C07_Complete_on_known_servers"
       ELSE IF ~ReadOnlyRespected(m, ROf(c), ExOf(c)) THEN "C07_ReadOnlyRespected:" \o ROCause(c, e, m)
       ELSE IF ~ValidPlacement(m, WOf(c), ROf(c), SharesOf(c), ExOf(c)) THEN "C07_Valid"
       ELSE IF Spread(m) > best THEN "spec_optimum_exceeded"
       ELSE IF Spread(m) < best THEN "C07_MaxSpread:" \o SpreadCause(c, e, m, best - Spread(m))
       ELSE ""

TraceInit ==
  /\ tid \in 1..Len(Traces)
  /\ l = 0
  /\ best = -1
  /\ bad = "none"

\* first step: the Spec's optimum for this layout (done in a step so that TLC's workers share the work)
Setup ==
  /\ l = 0
  /\ l' = 1
  /\ best' = BestClosed(WOf(C), ROf(C), SharesOf(C), ExOf(C))
  /\ UNCHANGED <<tid, bad>>

Replay ==
  /\ bad = "none"
  /\ l >= 1 /\ l <= Len(Events)
  /\ LET v == Verdict(C, Ev)
     IN IF v = ""
          THEN /\ l' = l + 1 /\ bad' = "none"
               /\ (l = Len(Events) => PrintT(<<"VF_ACCEPT", tid, l>>))
          ELSE /\ bad' = v /\ UNCHANGED l
               /\ PrintT(<<"VF_REJECT", tid, l, v>>)
  /\ UNCHANGED <<tid, best>>

TraceNext == Setup \/ Replay

TraceSpec == TraceInit /\ [][TraceNext]_tvars
TraceOK == bad = "none"
\* cross-checks of the Spec itself on the recorded layouts
GenBestAgrees == (l = 1 /\ "genbest" \in DOMAIN C) => C.genbest = best
BruteForceAgrees == (l = 1 /\ C.n <= 6 /\ Cardinality(WOf(C) \cup ROf(C)) <= 8 /\ Cardinality(WOf(C) \cup ROf(C)) ^ C.n <= 64) =>
                      BestBF(WOf(C), ROf(C), SharesOf(C), ExOf(C)) = best
=============================================================================
