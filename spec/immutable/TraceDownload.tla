--------------------------- MODULE TraceDownload ---------------------------
(* Contract-level trace validation of the real immutable downloader against the contract of Download.tla (DownloadContract.tla; DESIGN.md 5.3a).
   A trace (harness/download_driver.py) holds the environment-visible events of one scenario on real storage
   servers with damaged shares, faulty servers and a seeded delivery order:

     Read(r, node, off, len)            ImmutableFileNode.read was called
     Deliver(r, off, len, matches)      the consumer of read r received len bytes for offset off; matches = they equal
                                        the uploaded plaintext there (byte comparison by the observer)
     ReadResult(r, res)                 the Deferred of read r fired: "ok" or the class of the error
     Stop(r)                            the consumer of read r called stopProducing (the reader went away)
     Quiescent(unresolved, outstanding) no call is pending, every timer has fired; outstanding = calls that were
                                        lost and never failed (then some server has neither answered nor failed)
     Livelock(unresolved, cause)        the same call was answered the same way several hundred times in a row
                                        while no read made progress

   consts carry the ground truth: k, numsegs, segsize, size, strict (instances byte-identical to what was uploaded
   on servers that answered every call), usable (per segment: share numbers whose genuine block was visible on
   some server at all), badsegs (segments the tampering encoder made inconsistent).

   Every event is judged with the contract operators of DownloadContract.tla; the verdict is the name of the first
   clause that fails.  ClearOnFailure = FALSE (the code's rule) only *names* the C46 clause after a
   decode/ciphertext-hash failure on the same node; it never excuses an unresolved read. *)
EXTENDS DownloadContract, Json, IOUtils, TLCExt

Traces == JsonDeserialize(IOEnv.TRACE_FILE)

VARIABLES tid, l, R, stuck, bad
tvars == <<tid, l, R, stuck, bad>>

Events == Traces[tid].events
Ev == Events[l]
C == Traces[tid].consts

\* ground truth of the trace in the vocabulary of the contract
TG == [k |-> C.k,
       consistent |-> Len(C.badsegs) = 0,
       strictGood |-> {p[2] : p \in ToSet(C.strict)},
       usable |-> [seg \in 0..(C.numsegs - 1) |-> ToSet(C.usable[seg + 1])]]

V(c, reads, st) == [c |-> c, R |-> reads, stuck |-> st]

VRead(e) ==
  IF e.r \in DOMAIN R THEN V("harness_duplicate_read", R, stuck)
  ELSE V("", (e.r :> (NewRead(e.off, e.len, C.size) @@ [node |-> e.node])) @@ R, stuck)

VDeliver(e) ==
  IF e.r \notin DOMAIN R THEN V("harness_unknown_read", R, stuck)
  ELSE LET c == DeliverClause(R[e.r], e.off, e.len, e.matches) IN
       IF c # "" THEN V(c, R, stuck) ELSE V("", [R EXCEPT ![e.r] = AfterDeliver(@, e.len)], stuck)

\* the consumer of read r called stopProducing: the read is over as far as the property is concerned (its Deferred
\* fails with DownloadStopped, nothing more is owed to it); every other read still has to resolve
VStop(e) ==
  IF e.r \notin DOMAIN R THEN V("harness_unknown_read", R, stuck)
  ELSE IF R[e.r].st # "pending" THEN V("harness_stop_of_resolved_read", R, stuck)
  ELSE V("", [R EXCEPT ![e.r].st = "stopped"], stuck)

VResult(e) ==
  IF e.r \notin DOMAIN R THEN V("harness_unknown_read", R, stuck)
  ELSE IF R[e.r].st = "stopped" THEN (IF e.res = "ok" /\ R[e.r].pos # R[e.r].end THEN V("C02_SuccessIsComplete", R, stuck) ELSE V("", R, stuck))
  ELSE LET rd0 == R[e.r]
           c == ResultClause(rd0, e.res, TG, SegsOf(rd0.off, rd0.end - rd0.off, C.segsize)) IN
       IF c # "" THEN V(c, R, stuck)
       ELSE V("", [R EXCEPT ![e.r] = AfterResult(@, e.res)], IF StuckAfter(e.res) THEN stuck \cup {rd0.node} ELSE stuck)

VQuiescent(e) ==
  LET unres == {r \in DOMAIN R : ~Resolved(R[r])} IN
  IF ToSet(e.unresolved) # unres THEN V("harness_unresolved_mismatch", R, stuck)
  ELSE IF e.outstanding > 0 THEN V("", R, stuck)        \* a server has neither answered nor failed: no claim
  ELSE V(QuiescentClause(R, stuck), R, stuck)

\* an endless request loop: a violation exactly if some read is still waiting (it never completes)
VLivelock(e) ==
  IF ToSet(e.unresolved) # {r \in DOMAIN R : ~Resolved(R[r])} THEN V("harness_unresolved_mismatch", R, stuck)
  ELSE IF Len(e.unresolved) > 0 THEN V("C46_Livelock", R, stuck)
  ELSE V("", R, stuck)

Verdict(e) ==
  CASE e.ev = "Read"       -> VRead(e)
    [] e.ev = "Deliver"    -> VDeliver(e)
    [] e.ev = "ReadResult" -> VResult(e)
    [] e.ev = "Stop"       -> VStop(e)
    [] e.ev = "Quiescent"  -> VQuiescent(e)
    [] e.ev = "Livelock"   -> VLivelock(e)
    [] OTHER               -> V("unknown_event", R, stuck)

TraceInit ==
  /\ tid \in 1..Len(Traces)
  /\ l = 1
  /\ R = <<>>
  /\ stuck = {}
  /\ bad = "none"

TraceNext ==
  /\ bad = "none"
  /\ l <= Len(Events)
  /\ LET v == Verdict(Ev) IN
       IF v.c = ""
         THEN /\ R' = v.R /\ stuck' = v.stuck /\ l' = l + 1 /\ bad' = "none"
              /\ (l = Len(Events) => PrintT(<<"VF_ACCEPT", tid, l>>))
         ELSE /\ bad' = v.c /\ UNCHANGED <<R, stuck, l>>
              /\ PrintT(<<"VF_REJECT", tid, l, v.c>>)
  /\ UNCHANGED tid

TraceSpec == TraceInit /\ [][TraceNext]_tvars
TraceOK == bad = "none"
=============================================================================
