---------------------------- MODULE Convergence ----------------------------
(* The capability returned by an immutable upload as a function of what goes in
   (upload.py Uploader.upload, LiteralUploader, FileHandle._get_encryption_key_convergent /
   _get_encryption_key_random, BaseUploadable.get_all_encoding_parameters, util/hashutil.py
   convergence_hasher, EncryptAnUploadable), over symbolic (injective) hashes:

     size <= 55            -> LIT(plaintext)                       no key, no storage index, no server
     convergence secret s  -> key = H("convergence", s, k, N, segsize, plaintext)
                              where segsize = SegSize(size, k, maxseg) is the DERIVED segment size
     no secret             -> key = a fresh random value, different for every upload
     storage index = H(key);   CHK cap = (key, H(UEB(key, plaintext, k, N, segsize)), k, N, size)

   The data source (Data / FileHandle / FileName / an IUploadable that returns its bytes as
   arbitrary chunk lists) and the chunk size of the encrypting reader are NOT arguments.

   GEN mode: pairs of uploads (a base upload and a variation of it in one dimension) with the
   relation the Spec expects between the two caps:
     "equal"       same cap string
     "si_differs"  both CHK, convergent, different key / storage index
     "fresh"       both CHK, at least one without secret: different key / storage index
     "lit_equal" / "lit_differ"   both literal, same / different plaintext
     "lit_vs_chk"  one literal, one CHK *)
EXTENDS Layout, Json, IOUtils, SequencesExt

CONSTANT Tier

(* ---- the function ------------------------------------------------------------------- *)
\* plaintext identity: the driver derives the bytes from (cid, size) and flips the last ("t") or first ("h") byte,
\* so distinct normalised triples are distinct byte strings (the empty string is unique, a 1-byte string has one flip)
P(u) == IF u.size = 0 THEN <<"", 0, "">>
        ELSE IF u.size = 1 /\ u.variant = "h" THEN <<u.cid, 1, "t">>
        ELSE <<u.cid, u.size, u.variant>>
Seg(u) == SegSize(u.size, u.k, u.maxseg)
KeyTerm(u, uid) == IF u.secret = "none" THEN [fresh |-> TRUE, uid |-> uid, secret |-> "", k |-> 0, N |-> 0, seg |-> 0, p |-> <<>>]
                   ELSE [fresh |-> FALSE, uid |-> 0, secret |-> u.secret, k |-> u.k, N |-> u.N, seg |-> Seg(u), p |-> P(u)]
Cap(u, uid) == IF IsLit(u.size) THEN [kind |-> "LIT", p |-> P(u), key |-> KeyTerm([u EXCEPT !.secret = "none"], 0), k |-> 0, N |-> 0, size |-> u.size, seg |-> 0]
               ELSE [kind |-> "CHK", p |-> P(u), key |-> KeyTerm(u, uid), k |-> u.k, N |-> u.N, size |-> u.size, seg |-> Seg(u)]

Relation(u1, u2) ==
  LET c1 == Cap(u1, 1)
      c2 == Cap(u2, 2)
  IN IF c1.kind = "LIT" /\ c2.kind = "LIT" THEN (IF c1.p = c2.p THEN "lit_equal" ELSE "lit_differ")
     ELSE IF c1.kind # c2.kind THEN "lit_vs_chk"
     ELSE IF c1.key.fresh \/ c2.key.fresh THEN "fresh"
     ELSE IF c1 = c2 THEN "equal"
     ELSE IF c1.key # c2.key THEN "si_differs"
     ELSE "same_key_other_cap"          \* cannot happen: the key term covers every argument of the cap

(* ---- the table ------------------------------------------------------------------------- *)
Quick == Tier = "quick"
Sources == {"Data", "FileHandle", "FileName", "Chunky"}
Patterns(size) == IF size <= 3000 THEN {<<1>>, <<1, 2, 3>>, <<7, 1>>, <<100000>>} ELSE {<<1000>>, <<4096, 1>>, <<100000>>}
EncChunks(size) == IF size <= 300 THEN {0, 1, 5, 17} ELSE {0, 4096, 50000}     \* 0 = the default 50 KiB

BaseSizes == IF Quick THEN {56, 57, 100, 2000, 70000} ELSE {56, 57, 58, 100, 101, 2000, 65536, 65537, 70000, 200000, 307200}
LitSizes == {0, 1, 54, 55}
BaseKN == IF Quick THEN {<<3, 5>>} ELSE {<<1, 1>>, <<3, 5>>, <<2, 4>>}
BaseMaxSegs(size) == IF size <= 300 THEN {16, 131072} ELSE {1024, 131072}

Base(size, kn, m) == [cid |-> "A", size |-> size, variant |-> "", secret |-> "a", k |-> kn[1], N |-> kn[2], maxseg |-> m,
                      source |-> "Data", pattern |-> <<1>>, encchunk |-> 0, fault |-> FALSE]
Bases == {Base(z, kn, m) : z \in BaseSizes \cup LitSizes, kn \in BaseKN, m \in {16, 1024, 131072}}
Wanted(u) == IF IsLit(u.size) THEN u.maxseg = 16 ELSE u.maxseg \in BaseMaxSegs(u.size)

\* variations of one dimension (the identity variation is included: same upload twice)
VarSource(u) == {[u EXCEPT !.source = sp[1], !.pattern = sp[2], !.encchunk = ec] :
                   sp \in ({"Data", "FileHandle", "FileName"} \X {<<1>>}) \cup ({"Chunky"} \X Patterns(u.size)),
                   ec \in EncChunks(u.size)}
\* "empty" is the empty byte string: a legal convergence secret, distinct from having none
VarSecret(u) == {[u EXCEPT !.secret = s] : s \in {"a", "b", "empty", "none"}}
VarKN(u) == {[u EXCEPT !.k = kn[1], !.N = kn[2]] : kn \in {<<u.k, u.N>>, <<u.k + 1, u.N>>, <<u.k, u.N + 1>>, <<u.k - 1, u.N>>} \cap
                                                         {x \in (1..8) \X (1..8) : x[1] <= x[2]}}
VarSeg(u) == {[u EXCEPT !.maxseg = m] : m \in {u.maxseg, u.maxseg + 1, u.maxseg + u.k, 2 * u.maxseg, u.size, u.size + 1, 1000000}}
VarData(u) == {[u EXCEPT !.variant = v] : v \in {"", "t", "h"}} \cup {[u EXCEPT !.cid = "B"]}
              \cup {[u EXCEPT !.size = z] : z \in {u.size - 1, u.size + 1} \cap 0..400000}
\* the environment: one storage server fails a share write in the middle of the upload (the upload still
\* succeeds on the others).  The cap is a function of the data, the secret and the encoding only.
VarFault(u) == IF u.N >= 2 /\ ~IsLit(u.size) THEN {[u EXCEPT !.fault = TRUE]} ELSE {}
Unsecret(u) == [u EXCEPT !.secret = "none"]
EmptySecret(u) == [u EXCEPT !.secret = "empty"]
Variations(u) == VarSource(u) \cup VarSecret(u) \cup VarKN(u) \cup VarSeg(u) \cup VarData(u) \cup VarFault(u)
                 \cup {[v EXCEPT !.source = "Chunky", !.pattern = <<1, 2, 3>>] : v \in VarData(u) \cup VarSeg(u)}

MkPair(u, v) == [u1 |-> u, u2 |-> v, rel |-> Relation(u, v), lit1 |-> IsLit(u.size), lit2 |-> IsLit(v.size)]
Table == UNION {{MkPair(u, v) : v \in Variations(u)} \cup {MkPair(Unsecret(u), Unsecret(u)), MkPair(EmptySecret(u), EmptySecret(u)),
                                                      MkPair(EmptySecret(u), [EmptySecret(u) EXCEPT !.source = "FileHandle"])} : u \in {b \in Bases : Wanted(b)}}

ASSUME ndJsonSerialize(IOEnv.OUT_FILE, SetToSeq(Table))

VARIABLE c
Init == c \in Table
Next == UNCHANGED c
Spec == Init /\ [][Next]_c

(* ---- the property, clause by clause, over every pair of the table ---------------------------- *)
SameArgs(u, v) == P(u) = P(v) /\ u.secret = v.secret /\ u.k = v.k /\ u.N = v.N /\ Seg(u) = Seg(v)
Convergent(u) == u.secret # "none" /\ ~IsLit(u.size)
\* same data, secret and settings -> same cap, whatever the source and the read chunking
C05_Deterministic == (Convergent(c.u1) /\ Convergent(c.u2) /\ SameArgs(c.u1, c.u2)) => c.rel = "equal"
\* changing secret, k, N, (derived) segment size or the data changes the storage index
C05_Sensitive == (Convergent(c.u1) /\ Convergent(c.u2) /\ ~SameArgs(c.u1, c.u2)) => c.rel = "si_differs"
\* at most 55 bytes: literal cap that depends on the data only
C05_Literal == /\ c.lit1 = (c.u1.size <= 55) /\ c.lit2 = (c.u2.size <= 55)
               /\ (c.lit1 /\ c.lit2) => c.rel = (IF P(c.u1) = P(c.u2) THEN "lit_equal" ELSE "lit_differ")
               /\ (c.lit1 # c.lit2) => c.rel = "lit_vs_chk"
\* no secret: fresh key
C05_Fresh == (~c.lit1 /\ ~c.lit2 /\ (c.u1.secret = "none" \/ c.u2.secret = "none")) => c.rel = "fresh"
C05_Total == c.rel \in {"equal", "si_differs", "fresh", "lit_equal", "lit_differ", "lit_vs_chk"}
=============================================================================
