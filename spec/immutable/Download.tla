------------------------------ MODULE Download ------------------------------
(* The immutable downloader of Tahoe-LAFS (allmydata/immutable/downloader/), shaped like the code:

     DownloadNode   (node.py)          segment request queue _segment_requests, _active_segment,
                                       get_segment / _start_new_segment / fetch_failed / process_blocks
                                       (decode + ciphertext hash: ok or fail branch), later reads on the same node
     Segmentation   (segmentation.py)  one object per read(): asks for its segments in order, delivers to the consumer
     SegmentFetcher (fetcher.py)       _do_loop / _find_and_use_share (diversity limit) / _no_shares_error /
                                       _block_request_activity
     ShareFinder    (finder.py)        hungry / loop / send_request (DYHB) / overdue / _got_response / no_more_shares
     Share          (share.py)         abstracted: one answer per get_block, computed from the adversarial symbolic
                                       components of the share instance, in the order of _get_satisfaction

   Two layers, selected by FullLayer:
     FALSE  the DownloadNode layer alone (exact); a started fetcher is replaced by its guarantee "eventually calls
            process_blocks or fetch_failed exactly once" (AbsGotBlocks / AbsFetchFailed, weakly fair);
     TRUE   node + fetcher + finder + abstract shares, with foolscap's eventual-send queue as an explicit FIFO
            (evq): the queue is drained completely before the next network answer or timer is taken, as
            foolscap.eventual does.

   Contract operators (DownloadContract.tla: Clip, SegsOf, DeliverClause, ResultClause, QuiescentClause) are used both by the actions of
   this module and by TraceDownload.tla, which judges recorded executions of the real code with them.

   ClearOnFailure names the rule for _active_segment in the failure branch of process_blocks:
     FALSE = what node.py does (cleared only on success), TRUE = the intended rule.
   Validate names the checks that are switched on; the code corresponds to AllChecks. *)
EXTENDS DownloadContract

CONSTANTS
  Readers,          \* ids of read() calls on ONE node
  NumSegs,          \* segments of the file (segment size 1 in MC units)
  K,                \* shares needed
  Inst,             \* share instances: set of records [s |-> server, n |-> shnum]
  ServerOrder,      \* sequence of servers in permuted order (ShareFinder._servers)
  FullLayer,        \* BOOLEAN
  MaxOutstanding,   \* ShareFinder.max_outstanding_requests
  Validate,         \* subset of AllChecks
  ReadRanges,       \* set of <<lo, hi>> segment ranges a reader may ask for
  Advs,             \* set of adversary configurations (see MCDownload)
  StopMode          \* readers that go away (consumer calls stopProducing): "none" = never; "restart" = node.py
                    \* _cancel_request (stop the orphaned fetch, then _start_new_segment); "norestart" = the variant
                    \* that forgets _start_new_segment (demonstration: the queue is never served again)

AllChecks == {"ueb", "shh", "bht", "cht", "blk", "seg"}
Segs == 0..(NumSegs - 1)
Servers == ToSet(ServerOrder)
ShNums == {i.n : i \in Inst}
ErrClasses == {"NotEnoughSharesError", "NoSharesError", "BadCiphertextHashError"}

(* =================================== state =================================== *)
VARIABLES
  adv,        \* adversary configuration, constant along a behaviour except for Tamper (lying servers):
              \*   comp[i]   components of instance i: hdr, ueb, shh, bht, cht \in Status; blk \in [Segs -> Status]
              \*   srv[s]    "ok" | "dyhb" (get_buckets fails) | "read" (reads fail) | "flaky" (either may fail)
              \*   segok[seg] the encoder was honest for seg
              \*   liars     instances whose content may change during the download
  rd,         \* reader -> contract record plus lo/hi (requested segment range) and next (next segment wanted)
  requests,   \* DownloadNode._segment_requests: sequence of [r, seg]
  active,     \* _active_segment: 0 = None, seg+1 otherwise
  fetch,      \* "idle" | "running" | "stale" (stopped fetcher still referenced by _active_segment)
  evq,        \* foolscap eventual-send queue (FIFO)
  fin,        \* ShareFinder: [started, servers (remaining, sequence), hungry, pending, overdue]
  fet,        \* SegmentFetcher of the active segment: [unused, act, wait, blocks, bad, max, nomore, looping]
  node,       \* what the node has learnt: [shares, dead, anchor, shh, bht, cht]
  tampers     \* number of Tamper steps taken
vars == <<adv, rd, requests, active, fetch, evq, fin, fet, node, tampers>>

Status == {"genuine", "other", "forged", "short"}
Genuine == [hdr |-> "genuine", ueb |-> "genuine", shh |-> "genuine", bht |-> "genuine", cht |-> "genuine",
            blk |-> [seg \in Segs |-> "genuine"]]

NoFetcher == [unused |-> {}, act |-> {}, wait |-> {}, blocks |-> {}, bad |-> FALSE, max |-> 1, nomore |-> FALSE,
              looping |-> FALSE]

(* ground truth of the MC adversary in the vocabulary of the contract *)
GoodInst(i) == adv.srv[i.s] = "ok" /\ i \notin adv.liars /\ i \in adv.present /\ adv.comp[i] = Genuine
MCG == [k |-> K,
        consistent |-> \A seg \in Segs : adv.segok[seg],
        strictGood |-> {i.n : i \in {j \in Inst : GoodInst(j)}},
        usable |-> [seg \in Segs |-> {i.n : i \in {j \in Inst : j \in adv.present /\ (j \in adv.liars \/ adv.comp[j].blk[seg] = "genuine")}}]]

Init ==
  /\ adv \in Advs
  /\ rd = [r \in Readers |-> [off |-> 0, end |-> 0, pos |-> 0, st |-> "new", res |-> "", next |-> 0, clauses |-> {}]]
  /\ requests = <<>> /\ active = 0 /\ fetch = "idle" /\ evq = <<>>
  /\ fin = [started |-> FALSE, servers |-> ServerOrder, hungry |-> FALSE, pending |-> {}, overdue |-> {}]
  /\ fet = NoFetcher
  /\ node = [shares |-> {}, dead |-> {}, anchor |-> "none", shh |-> {}, bht |-> {}, cht |-> {}]
  /\ tampers = 0

(* =================================== DownloadNode =================================== *)
Extract(q, seg) == SelectSeq(q, LAMBDA x : x.seg # seg)
Served(q, seg) == {q[j].r : j \in {jj \in 1..Len(q) : q[jj].seg = seg}}
DeliverEvents(q, seg, ok, cls) ==       \* eventually(self._deliver, d, c, result) for every extracted request, in order
  LET idx == SelectSeq([j \in 1..Len(q) |-> j], LAMBDA j : q[j].seg = seg)
  IN [j \in 1..Len(idx) |-> [t |-> "deliver", r |-> q[idx[j]].r, seg |-> seg, ok |-> ok, cls |-> cls]]

\* a new SegmentFetcher: add_shares(alive shares) -> eventually(loop)
NewFetcher == [NoFetcher EXCEPT !.unused = node.shares \ node.dead]

\* _start_new_segment applied to (requests q, active a, fetch f, event queue e)
StartNewSegment(q, a, f, e) ==
  IF a = 0 /\ q # <<>>
    THEN [active |-> q[1].seg + 1, fetch |-> "running", fet |-> NewFetcher,
          evq |-> IF FullLayer THEN Append(e, [t |-> "fetchLoop"]) ELSE e]
    ELSE [active |-> a, fetch |-> f, fet |-> IF a = 0 THEN NoFetcher ELSE fet, evq |-> e]

\* drop the events addressed to a stopped fetcher (they are no-ops: if not self._running: return)
PurgeFetcher(e) == SelectSeq(e, LAMBDA x : x.t \notin {"fetchLoop", "blockActivity"})

\* get_segment(seg) for reader r:  append + _start_new_segment
GetSegment(r, seg, e) ==
  LET q == Append(requests, [r |-> r, seg |-> seg])
      s == StartNewSegment(q, active, fetch, e)
  IN /\ requests' = q /\ active' = s.active /\ fetch' = s.fetch /\ fet' = s.fet /\ evq' = s.evq

\* fetch_failed(sf, f): clear, deliver the error, start the next segment
FetchFailed(cls, e) ==
  LET seg == active - 1
      q == Extract(requests, seg)
      e1 == PurgeFetcher(e) \o DeliverEvents(requests, seg, FALSE, cls)
      s == StartNewSegment(q, 0, "idle", e1)
  IN /\ requests' = q /\ active' = s.active /\ fetch' = s.fetch /\ fet' = s.fet /\ evq' = s.evq

\* process_blocks(segnum, blocks): decode + _check_ciphertext_hash, then _deliver (ok branch or failure branch)
\* content = "genuine" | "garbage" (what the k blocks decode to)
ProcessBlocks(content, e) ==
  LET seg == active - 1
      pass == ("seg" \notin Validate) \/ content = "genuine"
      q == Extract(requests, seg)
  IN IF pass
       THEN LET e1 == PurgeFetcher(e) \o [j \in 1..Len(DeliverEvents(requests, seg, TRUE, "")) |->
                                            [DeliverEvents(requests, seg, TRUE, "")[j] EXCEPT !.cls = content]]
                s == StartNewSegment(q, 0, "idle", e1)
            IN /\ requests' = q /\ active' = s.active /\ fetch' = s.fetch /\ fet' = s.fet /\ evq' = s.evq
       ELSE \* failure branch: requests are retired with the error; _active_segment is cleared only under the intended rule
            LET e1 == PurgeFetcher(e) \o DeliverEvents(requests, seg, FALSE, "BadCiphertextHashError")
                s == StartNewSegment(q, IF ClearOnFailure THEN 0 ELSE active, IF ClearOnFailure THEN "idle" ELSE "stale", e1)
            IN /\ requests' = q /\ active' = s.active /\ fetch' = s.fetch
               /\ fet' = (IF ClearOnFailure THEN s.fet ELSE NoFetcher) /\ evq' = s.evq

(* =================================== Segmentation (one per read) =================================== *)
\* read(consumer, offset, size): Segmentation.start -> _fetch_next -> get_segment, all in one turn
StartRead(r) ==
  /\ rd[r].st = "new" /\ evq = <<>> /\ ~fet.looping
  /\ \E rg \in ReadRanges :
       /\ rd' = [rd EXCEPT ![r] = NewRead(rg[1], rg[2] - rg[1] + 1, NumSegs) @@ [next |-> rg[1], clauses |-> {}]]
       /\ GetSegment(r, rg[1], evq)
  /\ UNCHANGED <<adv, fin, node, tampers>>

\* Segmentation._got_segment / _error, run from the eventual queue
\* Every consumer write and every result is judged by the contract clauses; violated clauses are remembered.
Judge(r0, c) == IF c = "" THEN r0 ELSE [r0 EXCEPT !.clauses = @ \cup {c}]
TurnDeliver(ev, rest) ==
  LET r == ev.r IN
  IF ev.ok
    THEN \* consumer.write(segment), then _maybe_fetch_next (next get_segment or the Deferred fires)
         LET c1 == DeliverClause(rd[r], ev.seg, 1, ev.cls = "genuine")
             r1 == [Judge(AfterDeliver(rd[r], 1), c1) EXCEPT !.next = ev.seg + 1] IN
         IF r1.pos >= r1.end
           THEN /\ rd' = [rd EXCEPT ![r] = AfterResult(Judge(r1, ResultClause(r1, "ok", MCG, SegsOf(r1.off, r1.end - r1.off, 1))), "ok")]
                /\ evq' = rest /\ UNCHANGED <<requests, active, fetch, fet>>
           ELSE /\ rd' = [rd EXCEPT ![r] = r1]
                /\ GetSegment(r, ev.seg + 1, rest)
    ELSE /\ rd' = [rd EXCEPT ![r] = AfterResult(Judge(rd[r], ResultClause(rd[r], ev.cls, MCG, SegsOf(rd[r].off, rd[r].end - rd[r].off, 1))), ev.cls)]
         /\ evq' = rest /\ UNCHANGED <<requests, active, fetch, fet>>

(* Segmentation.stopProducing -> DownloadNode._cancel_request: the reader's queued request is dropped; if nobody else
   waits for the active segment its fetcher is stopped, _active_segment is cleared (also a stale one) and the next
   queued request is started.  Results already on their way to the stopped reader are ignored by it. *)
StopRead(r) ==
  /\ StopMode # "none" /\ rd[r].st = "pending"
  /\ LET q == SelectSeq(requests, LAMBDA x : x.r # r)
         e0 == SelectSeq(evq, LAMBDA x : ~(x.t = "deliver" /\ x.r = r))
         orphan == active # 0 /\ \A j \in 1..Len(q) : q[j].seg # active - 1
     IN /\ rd' = [rd EXCEPT ![r].st = "stopped"]
        /\ requests' = q
        /\ IF orphan
             THEN LET e1 == PurgeFetcher(e0)
                      s == IF StopMode = "restart" THEN StartNewSegment(q, 0, "idle", e1)
                           ELSE [active |-> 0, fetch |-> "idle", fet |-> NoFetcher, evq |-> e1]
                  IN active' = s.active /\ fetch' = s.fetch /\ fet' = s.fet /\ evq' = s.evq
             ELSE evq' = e0 /\ UNCHANGED <<active, fetch, fet>>
  /\ UNCHANGED <<adv, fin, node, tampers>>

(* =================================== node layer alone: the fetcher's guarantee =================================== *)
AbsFetchFailed ==
  /\ ~FullLayer /\ fetch = "running"
  /\ \E cls \in {"NotEnoughSharesError", "NoSharesError"} : FetchFailed(cls, evq)
  /\ UNCHANGED <<adv, rd, fin, node, tampers>>
AbsGotBlocks ==
  /\ ~FullLayer /\ fetch = "running"
  /\ \E content \in {"genuine", "garbage"} :
        /\ (content = "garbage" => ~adv.segok[active - 1])     \* validated blocks decode to garbage only if the encoder lied
        /\ ProcessBlocks(content, evq)
  /\ UNCHANGED <<adv, rd, fin, node, tampers>>

(* =================================== ShareFinder =================================== *)
Hungry(f, e) == [fin |-> [f EXCEPT !.started = TRUE, !.hungry = TRUE], evq |-> Append(e, [t |-> "finderLoop"])]

TurnFinderLoop(rest) ==
  /\ UNCHANGED <<rd, requests, active, fetch, fet, node>>
  /\ IF ~fin.hungry THEN fin' = fin /\ evq' = rest
     ELSE IF Cardinality(fin.pending \ fin.overdue) >= MaxOutstanding THEN fin' = fin /\ evq' = rest
     ELSE IF fin.servers # <<>>
       THEN /\ fin' = [fin EXCEPT !.pending = @ \cup {Head(fin.servers)}, !.servers = Tail(@)]     \* send_request (DYHB)
            /\ evq' = Append(rest, [t |-> "finderLoop"])
     ELSE IF fin.pending # {} THEN fin' = fin /\ evq' = rest
     ELSE fin' = fin /\ evq' = Append(rest, [t |-> "noMore"])

\* the answer to get_buckets arrives (or the call fails)
DYHBAnswer(s) ==
  /\ FullLayer /\ evq = <<>> /\ ~fet.looping /\ s \in fin.pending
  /\ \E fails \in BOOLEAN :
       /\ (fails => adv.srv[s] \in {"dyhb", "flaky"}) /\ (~fails => adv.srv[s] # "dyhb")
       /\ LET f1 == [fin EXCEPT !.pending = @ \ {s}, !.overdue = @ \ {s}]
              shares == {i \in Inst : i.s = s /\ i \in adv.present} IN
          IF fails \/ shares = {}
            THEN /\ fin' = f1 /\ evq' = <<[t |-> "finderLoop"]>>
            ELSE /\ fin' = [f1 EXCEPT !.hungry = FALSE]              \* _deliver_shares
                 /\ evq' = <<[t |-> "gotShares", shares |-> shares], [t |-> "finderLoop"]>>
  /\ UNCHANGED <<adv, rd, requests, active, fetch, fet, node, tampers>>

\* OVERDUE_TIMEOUT fires for a pending DYHB
Overdue(s) ==
  /\ FullLayer /\ evq = <<>> /\ ~fet.looping /\ s \in fin.pending \ fin.overdue
  /\ fin' = [fin EXCEPT !.overdue = @ \cup {s}]
  /\ evq' = <<[t |-> "finderLoop"]>>
  /\ UNCHANGED <<adv, rd, requests, active, fetch, fet, node, tampers>>

(* =================================== node callbacks from the finder =================================== *)
TurnGotShares(ev, rest) ==
  /\ node' = [node EXCEPT !.shares = @ \cup ev.shares]
  /\ IF fetch = "running"
       THEN fet' = [fet EXCEPT !.unused = @ \cup ev.shares] /\ evq' = Append(rest, [t |-> "fetchLoop"])
       ELSE fet' = fet /\ evq' = rest        \* (with fetch = "stale" the code raises AttributeError in add_shares)
  /\ UNCHANGED <<rd, requests, active, fetch, fin>>

TurnNoMore(rest) ==
  /\ IF fetch = "running"
       THEN fet' = [fet EXCEPT !.nomore = TRUE] /\ evq' = Append(rest, [t |-> "fetchLoop"])
       ELSE fet' = fet /\ evq' = rest
  /\ UNCHANGED <<rd, requests, active, fetch, fin, node>>

(* =================================== SegmentFetcher._do_loop =================================== *)
Have == fet.blocks \cup {i.n : i \in fet.act}
Cands == {i \in fet.unused : i.n \notin Have}
Usable == {i \in Cands : Cardinality({j \in fet.act : j.s = i.s}) < fet.max}

\* one iteration of the while len(blocks | active) < k loop, or the final test; looping keeps the turn atomic
FetcherLoopStep(rest) ==
  IF Cardinality(Have) < K
    THEN IF Usable # {}
           THEN \* _find_and_use_share: sent_something
                \E i \in Usable :
                  /\ fet' = [fet EXCEPT !.unused = @ \ {i}, !.act = @ \cup {i}, !.wait = @ \cup {i}, !.looping = TRUE]
                  /\ evq' = rest /\ UNCHANGED <<rd, requests, active, fetch, fin, node>>
         ELSE IF Cands # {}
           THEN \* want_more_diversity: raise the limit, ask for more shares, continue
                LET h == IF fet.nomore THEN [fin |-> fin, evq |-> rest] ELSE Hungry(fin, rest) IN
                /\ fet' = [fet EXCEPT !.max = @ + 1, !.looping = TRUE]
                /\ fin' = h.fin /\ evq' = h.evq /\ UNCHANGED <<rd, requests, active, fetch, node>>
         ELSE IF fet.nomore
           THEN \* _no_shares_error -> stop -> fetch_failed
                LET cls == IF fet.unused = {} /\ fet.act = {} /\ fet.blocks = {} THEN "NoSharesError" ELSE "NotEnoughSharesError" IN
                /\ FetchFailed(cls, rest) /\ UNCHANGED <<rd, fin, node>>
         ELSE \* _ask_for_more_shares, wait
                LET h == Hungry(fin, rest) IN
                /\ fet' = [fet EXCEPT !.looping = FALSE]
                /\ fin' = h.fin /\ evq' = h.evq /\ UNCHANGED <<rd, requests, active, fetch, node>>
  ELSE IF Cardinality(fet.blocks) >= K
    THEN \* stop; process_blocks
         /\ ProcessBlocks(IF fet.bad \/ ~adv.segok[active - 1] THEN "garbage" ELSE "genuine", rest)
         /\ UNCHANGED <<rd, fin, node>>
  ELSE /\ fet' = [fet EXCEPT !.looping = FALSE] /\ evq' = rest
       /\ UNCHANGED <<rd, requests, active, fetch, fin, node>>

(* =================================== Share (abstract) =================================== *)
\* does value v validate against the trust anchor a (the file whose UEB hash the node accepted)?
Validates(v, a) == v = a /\ v \in {"genuine", "other"}

\* Share._get_satisfaction for instance i and segment seg, given what the node already holds.
\* Result: [st |-> "COMPLETE" | "CORRUPT" | "DEAD", node |-> node after the validated components were stored,
\*          bad |-> the delivered block is not the genuine one]
ShareOutcome(i, seg) ==
  LET c == adv.comp[i]
      Dead == [st |-> "DEAD", node |-> [node EXCEPT !.dead = @ \cup {i}], bad |-> FALSE]
      needUEB == node.anchor = "none"
      uebOK == c.ueb # "short" /\ (("ueb" \notin Validate /\ c.ueb \in {"genuine", "other"}) \/ c.ueb = "genuine")
      anchor == IF needUEB THEN c.ueb ELSE node.anchor
      needShh == i.n \notin node.shh
      shhOK == c.shh # "short" /\ ("shh" \notin Validate \/ Validates(c.shh, anchor))
      needBht == <<i.n, seg>> \notin node.bht
      bhtOK == c.bht # "short" /\ ("bht" \notin Validate \/ Validates(c.bht, anchor))
      needCht == seg \notin node.cht
      chtOK == c.cht # "short" /\ ("cht" \notin Validate \/ Validates(c.cht, anchor))
      blkOK == "blk" \notin Validate \/ Validates(c.blk[seg], anchor)
      n1 == [node EXCEPT !.anchor = anchor, !.shh = @ \cup {i.n}, !.bht = @ \cup {<<i.n, seg>>}, !.cht = @ \cup {seg}]
  IN IF adv.srv[i.s] = "read" THEN Dead
     ELSE IF c.hdr # "genuine" THEN Dead                       \* LayoutInvalid / DataUnavailable / wrong places
     ELSE IF needUEB /\ ~uebOK THEN Dead
     ELSE IF needShh /\ ~shhOK THEN [Dead EXCEPT !.node.anchor = anchor]
     ELSE IF needBht /\ ~bhtOK THEN [Dead EXCEPT !.node.anchor = anchor]
     ELSE IF needCht /\ ~chtOK THEN [Dead EXCEPT !.node.anchor = anchor]
     ELSE IF c.blk[seg] = "short" THEN [Dead EXCEPT !.node.anchor = anchor]
     ELSE IF ~blkOK THEN [st |-> "CORRUPT", node |-> n1, bad |-> FALSE]
     ELSE [st |-> "COMPLETE", node |-> n1, bad |-> c.blk[seg] # "genuine"]

\* the share has fetched what it needs (or its reads failed) and notifies its observer (eventually)
ShareAnswer(i) ==
  /\ FullLayer /\ evq = <<>> /\ ~fet.looping /\ fetch = "running" /\ i \in fet.wait
  /\ \E fails \in BOOLEAN :
       /\ (fails => adv.srv[i.s] = "flaky")
       /\ LET o == IF fails THEN [st |-> "DEAD", node |-> [node EXCEPT !.dead = @ \cup {i}], bad |-> FALSE]
                   ELSE ShareOutcome(i, active - 1) IN
          /\ node' = o.node
          /\ fet' = [fet EXCEPT !.wait = @ \ {i}]
          /\ evq' = <<[t |-> "blockActivity", i |-> i, st |-> o.st, bad |-> o.bad]>>
  /\ UNCHANGED <<adv, rd, requests, active, fetch, fin, tampers>>

\* SegmentFetcher._block_request_activity
TurnBlockActivity(ev, rest) ==
  /\ fet' = [fet EXCEPT !.act = @ \ {ev.i},
                        !.blocks = IF ev.st = "COMPLETE" THEN @ \cup {ev.i.n} ELSE @,
                        !.bad = @ \/ (ev.st = "COMPLETE" /\ ev.bad)]
  /\ evq' = Append(rest, [t |-> "fetchLoop"])
  /\ UNCHANGED <<rd, requests, active, fetch, fin, node>>

\* lying server: the content of an instance changes between two answers
Tamper(i) ==
  /\ FullLayer /\ evq = <<>> /\ ~fet.looping /\ i \in adv.liars /\ tampers < adv.maxTamper
  /\ \E c \in adv.lies : adv' = [adv EXCEPT !.comp[i] = c]
  /\ tampers' = tampers + 1
  /\ UNCHANGED <<rd, requests, active, fetch, evq, fin, fet, node>>

(* =================================== one turn of the eventual queue =================================== *)
Turn ==
  /\ evq # <<>> \/ fet.looping
  /\ IF fet.looping THEN FetcherLoopStep(evq)
     ELSE LET ev == Head(evq)
              rest == Tail(evq) IN
          CASE ev.t = "deliver"       -> TurnDeliver(ev, rest) /\ UNCHANGED <<fin, node>>
            [] ev.t = "fetchLoop"     -> IF fetch = "running" THEN FetcherLoopStep(rest)
                                         ELSE evq' = rest /\ UNCHANGED <<rd, requests, active, fetch, fin, fet, node>>
            [] ev.t = "finderLoop"    -> TurnFinderLoop(rest)
            [] ev.t = "gotShares"     -> TurnGotShares(ev, rest)
            [] ev.t = "noMore"        -> TurnNoMore(rest)
            [] ev.t = "blockActivity" -> IF fetch = "running" THEN TurnBlockActivity(ev, rest)
                                         ELSE evq' = rest /\ UNCHANGED <<rd, requests, active, fetch, fin, fet, node>>
  /\ UNCHANGED <<adv, tampers>>

Next ==
  \/ \E r \in Readers : StartRead(r)
  \/ \E r \in Readers : StopRead(r)
  \/ Turn
  \/ AbsFetchFailed \/ AbsGotBlocks
  \/ \E s \in Servers : DYHBAnswer(s) \/ Overdue(s)
  \/ \E i \in Inst : ShareAnswer(i) \/ Tamper(i)

\* every read() is eventually called; the reactor runs; every call is eventually answered (or fails)
Fair ==
  /\ \A r \in Readers : WF_vars(StartRead(r))
  /\ WF_vars(Turn)
  /\ WF_vars(AbsFetchFailed \/ AbsGotBlocks)
  /\ \A s \in Servers : WF_vars(DYHBAnswer(s))
  /\ \A i \in Inst : WF_vars(ShareAnswer(i))

Spec == Init /\ [][Next]_vars /\ Fair

(* =================================== properties =================================== *)
TypeOK ==
  /\ active \in 0..NumSegs /\ fetch \in {"idle", "running", "stale"}
  /\ \A r \in Readers : rd[r].st \in {"new", "pending", "done", "failed", "stopped"}
  /\ (active = 0) = (fetch = "idle")

\* C46
C46_Terminates == \A r \in Readers : <>Resolved(rd[r])
Quiescent == ~ENABLED Next
C46_QuiescentResolved == Quiescent => \A r \in Readers : Resolved(rd[r])
\* a failed read does not block later ones: whenever the node is idle its queue is empty
C46_NoOrphanRequest == (evq = <<>> /\ ~fet.looping /\ fetch # "running") => requests = <<>>

\* C02 / C03: the contract clauses, evaluated at every consumer write and every result of the model
IsC02(c) == c \in {"C02_DeliverAfterResult", "C02_OnlyGenuine", "C02_PrefixDiscipline", "C02_SuccessIsComplete", "C02_ErrorAfterAllBytes"}
C02_OnlyGenuine == \A r \in Readers : \A c \in rd[r].clauses : ~IsC02(c)
\* ... and stated directly: delivered bytes are always the prefix [off, pos) of the request
C02_PrefixOnError == \A r \in Readers : rd[r].st # "new" =>
                        /\ rd[r].off <= rd[r].pos /\ rd[r].pos <= rd[r].end
                        /\ (rd[r].st = "done" => rd[r].pos = rd[r].end)
                        /\ (rd[r].st = "failed" => rd[r].pos < rd[r].end)

\* C03, stated directly on the ground truth of the adversary
ReadSegs(r) == SegsOf(rd[r].off, rd[r].end - rd[r].off, 1)
C03_Available == \A r \in Readers : rd[r].st = "failed" => ~StrictEnough(MCG)
C03_NoFalseSuccess == \A r \in Readers : rd[r].st = "done" => UsableEnough(MCG, ReadSegs(r))
C03_ErrorClass == \A r \in Readers : rd[r].st = "failed" => rd[r].res \in AllowedErrors(MCG)
C03_Contract == \A r \in Readers : rd[r].clauses \cap {"C03_Available", "C03_NoFalseSuccess", "C03_ErrorClass"} = {}
=============================================================================
