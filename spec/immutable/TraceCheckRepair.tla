------------------------- MODULE TraceCheckRepair -------------------------
(* Trace validation of the real checker / verifier / repairer against
   CheckRepair.tla (C45).  One trace = one scenario of
   harness/checkrepair_driver.py: consts (K, N, Servers), the layout of share
   files the driver built (per server and share number the set of damaged
   sections), and the events
     check   verify, res                         CiphertextFileNode.check
     repair  verify, outcome, attempted, successful, pre, post,
             old (pre-existing files: same | altered | vanished),
             new (files that did not exist before: genuine | bad)
     read_new  res (ok | fail | wrong | hang)    read through the read-cap after every
                                                 pre-existing share file was deleted
   The verdict of an event is the name of the first clause that fails
   ("" = accepted); the Spec state (layout) is advanced with the observed
   placement of the pushed shares. *)
EXTENDS CheckRepair, Json, IOUtils, TLCExt

Traces == JsonDeserialize(IOEnv.TRACE_FILE)

VARIABLES tid, l, L, newp, bad
tvars == <<tid, l, L, newp, bad>>

Tr == Traces[tid]
Events == Tr.events
Ev == Events[l]
Cn == [K |-> Tr.consts.K, N |-> Tr.consts.N, Servers |-> ToSet(Tr.consts.Servers)]

LayoutOf(c, j) ==
  [s \in c.Servers |-> [n \in Shnums(c) |->
      IF ToString(n) \in DOMAIN j[s] THEN Share(ToSet(j[s][ToString(n)].dmg)) ELSE Missing]]

Pos(x) == <<x[1], x[2]>>
PosSet(a) == {Pos(x) : x \in ToSet(a)}
NormRes(r) == [healthy |-> r.healthy, recoverable |-> r.recoverable, good |-> r.good, hosts |-> r.hosts,
               needed |-> r.needed, expected |-> r.expected, sharemap |-> PosSet(r.sharemap),
               corrupt |-> PosSet(r.corrupt), incompatible |-> PosSet(r.incompatible)]

\* the damage kind named in a clause about share sh (fixed priority, for structural finding keys)
KindOrder == <<"foreign_blocks", "version", "offsets", "uri_extension", "share_hashes", "block_hashes",
               "crypttext_hash_tree", "data", "ignored">>
KindOf(sh) == IF sh.dmg = {} THEN "undamaged"
              ELSE KindOrder[CHOOSE i \in 1..Len(KindOrder) :
                                /\ KindOrder[i] \in sh.dmg
                                /\ \A j \in 1..(i - 1) : KindOrder[j] \notin sh.dmg]

V(c, s, n) == [c |-> c, s |-> s, n |-> n]

\* first difference between a reported check result r and the Spec's x, as a clause name
ResClause(r, x, LL, verify, tag) ==
  LET wronglyGood == r.sharemap \ x.sharemap
      wronglyBad  == x.sharemap \ r.sharemap
  IN IF verify /\ \E p \in wronglyGood : ~AllValid(At(LL, p))
       THEN "C45_GoodOnlyIfValid" \o tag \o ":" \o KindOf(At(LL, CHOOSE p \in wronglyGood : ~AllValid(At(LL, p))))
     ELSE IF wronglyGood # {} THEN "C45_SharesFound" \o tag
     ELSE IF wronglyBad # {} THEN "C45_ValidIsGood" \o tag \o ":" \o KindOf(At(LL, CHOOSE p \in wronglyBad : TRUE))
     ELSE IF r.corrupt # x.corrupt \/ r.incompatible # x.incompatible THEN "C45_CorruptListed" \o tag
     ELSE IF r.healthy # x.healthy THEN "C45_HealthyIffN" \o tag
     ELSE IF r.recoverable # x.recoverable THEN "C45_RecoverableIffK" \o tag
     ELSE IF r # x THEN "C45_Counts" \o tag
     ELSE ""

VCheck(e) ==
  IF e.res.status # "ok" THEN V("C45_CheckCompletes:" \o e.res.status, L, newp)
  ELSE V(ResClause(NormRes(e.res), CheckRes(Cn, L, e.verify), L, e.verify, ""), L, newp)

VRepair(e) ==
  LET new    == {Pos(x) : x \in ToSet(e.new)}
      oldbad == {x \in ToSet(e.old) : x[3] # "same"}
      exp    == RepairRes(Cn, L, e.verify, new)
      T      == AfterRepair(Cn, L, new, GenuineShare)
  IN IF e.outcome = "hang" THEN V("C45_RepairTerminates", L, {})
     ELSE IF \E x \in oldbad : AllValid(At(L, Pos(x))) THEN V("C45_RepairKeepsGood", L, {})
     ELSE IF oldbad # {} THEN V("C45_RepairKeepsExisting", L, {})
     ELSE IF \E x \in ToSet(e.new) : x[3] # "genuine" THEN V("C45_RepairNewValid", L, {})
     ELSE IF ~(new \subseteq Free(Cn, L)) THEN V("harness_new_not_free", L, {})
     ELSE IF e.outcome = "failed"
       THEN IF MustRead(Cn, L) THEN V("C45_RepairMustWork:" \o e.error, L, {})
            ELSE IF new # {} THEN V("C45_FailedRepairLeavesShares", L, {})
            ELSE IF CheckRes(Cn, L, e.verify).healthy THEN V("C45_RepairIffUnhealthy", L, {})
            ELSE V("", L, {})
     ELSE \* outcome = "done"
       LET pc == ResClause(NormRes(e.pre), exp.pre, L, e.verify, "_pre") IN
       IF e.pre.status # "ok" \/ e.post.status # "ok" THEN V("harness_no_results", L, {})
       ELSE IF pc # "" THEN V(pc, L, {})
       ELSE IF e.attempted # exp.attempted THEN V("C45_RepairIffUnhealthy", L, {})
       ELSE IF ~exp.attempted
         THEN IF new # {} THEN V("C45_HealthyButPushed", L, {})
              ELSE IF NormRes(e.post) # exp.post \/ e.successful # exp.successful THEN V("C45_PostRepairResults", L, {})
              ELSE V("", L, {})
       ELSE IF new # {} /\ ~MayReadSome(Cn, L) THEN V("C45_RepairedFromNothing", L, {})
       ELSE IF \E p \in new, q \in new : p[2] = q[2] /\ p # q THEN V("C45_RepairPlacement", L, {})
       ELSE IF ~(Absent(Cn, L) \subseteq ShnumsOf(new)) THEN V("C45_RepairRestoresAbsent", L, {})
       ELSE IF NormRes(e.post) # exp.post THEN V("C45_PostRepairResults", T, new)
       ELSE IF e.successful # exp.successful THEN V("C45_RepairSuccessFlag", T, new)
       ELSE V("", T, new)

OnlyNew == [s \in Cn.Servers |-> [n \in Shnums(Cn) |-> IF <<s, n>> \in newp THEN L[s][n] ELSE Missing]]

VReadNew(e) ==
  LET T == OnlyNew IN
  IF e.res = "wrong" THEN V("C45_ReadWrongBytes", T, newp)
  ELSE IF e.res \in ReadOutcomes(Cn, T) THEN V("", T, newp)
  ELSE IF e.res = "ok" THEN V("C45_ReadFromNothing", T, newp)
  ELSE V("C45_ReadableFromRepaired:" \o e.res, T, newp)

Verdict(e) ==
  CASE e.ev = "check"    -> VCheck(e)
    [] e.ev = "repair"   -> VRepair(e)
    [] e.ev = "read_new" -> VReadNew(e)
    [] OTHER             -> V("unknown_event", L, newp)

TraceInit ==
  /\ tid \in 1..Len(Traces)
  /\ l = 1
  /\ L = LayoutOf(Cn, Traces[tid].layout)
  /\ newp = {}
  /\ bad = "none"

TraceNext ==
  /\ bad = "none"
  /\ l <= Len(Events)
  /\ LET v == Verdict(Ev) IN
       IF v.c = ""
         THEN /\ L' = v.s /\ newp' = v.n /\ l' = l + 1 /\ bad' = "none"
              /\ (l = Len(Events) => PrintT(<<"VF_ACCEPT", tid, l>>))
         ELSE /\ bad' = v.c /\ UNCHANGED <<L, newp, l>>
              /\ PrintT(<<"VF_REJECT", tid, l, v.c>>)
  /\ UNCHANGED tid

TraceSpec == TraceInit /\ [][TraceNext]_tvars
TraceOK == bad = "none"
\* the layouts the driver builds are layouts of the Spec
TypeOK == \A p \in Positions(Cn) : At(L, p).dmg \subseteq DamageKinds
=============================================================================
