SPECIFICATION Spec
CONSTANTS
  K = 1
  N = 2
  Servers = {"s0"}
  ShareStates = {{}, {"version"}, {"offsets"}, {"data"}, {"crypttext_hash_tree"}, {"block_hashes"}, {"share_hashes"}, {"uri_extension"}, {"ignored"}, {"foreign_blocks"}, {"data", "foreign_blocks"}, {"ignored", "version"}, {"block_hashes", "foreign_blocks"}, {"ignored", "foreign_blocks"}, {"offsets", "version"}}
  CheckBlockRoot = TRUE
INVARIANT C45_GoodOnlyIfValid
INVARIANT C45_ValidIsGood
INVARIANT C45_HealthyRecoverable
INVARIANT C45_RepairIffUnhealthy
INVARIANT C45_RepairNewValid
INVARIANT C45_RepairKeepsExisting
INVARIANT C45_RepairRestoresAbsent
INVARIANT C45_RepairMustWork
INVARIANT C45_PostResultsTrue
INVARIANT C45_ReadableFromRepaired
CHECK_DEADLOCK FALSE
