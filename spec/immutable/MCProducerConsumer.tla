------------------------ MODULE MCProducerConsumer ------------------------
(* Design model of the producer / consumer protocol of IReadable.read (contract: ProducerConsumer.tla).

   One read of N chunks.  The producer is one of several designs, the consumer is an adversary that makes up to
   MaxMoves moves (pauseProducing, resumeProducing, stopProducing; raising from write()) at any point where a real
   consumer gets control: re-entrantly inside registerProducer, re-entrantly inside write(), or from the outside
   between two reactor turns.  The environment may fail a fetch (server faults).

   Designs (D): what the producer does when
     hold        a chunk arrives while the consumer has it paused: TRUE = keep it until resumeProducing
     recheck     the wake-up after resumeProducing finds the producer paused again: TRUE = keep waiting
     unregErr    the read fails (fault, stopProducing, exception of the consumer): TRUE = unregisterProducer, then errback
     stopNow     stopProducing: TRUE = the read ends inside that call; FALSE = at the next checkpoint before a write
     fetchPaused chunks are fetched while paused
     pauseInReg  pauseProducing works when called from inside registerProducer
     push        IPushProducer (streaming = TRUE) / IPullProducer
   "intended"     everything as the contract wants it
   "segmentation" allmydata/immutable/downloader/segmentation.py: _got_segment writes whatever arrives (hold = FALSE)
   "retrieve"     allmydata/mutable/retrieve.py: _check_for_paused chains the write to the pause Deferred that exists
                  at that moment (recheck = FALSE), _error does not unregister (unregErr = FALSE), stopProducing only
                  sets a flag (stopNow = FALSE), pauseProducing inside registerProducer raises (pauseInReg = FALSE)
   "pull" / "filesender"  a pull producer as intended / twisted.protocols.basic.FileSender as LiteralFileNode.read
                  uses it: stopProducing fires the Deferred without unregistering; an exception of write() travels
                  back to the consumer and nothing else happens

   Adversaries (A.adv): "any" = every move anywhere; "inwrite" = pauseProducing only from inside write() (what a
   transport does [S]), everything else anywhere.

   Modes = design x adversary x (stop / fault / raise allowed); Init picks one of the CONSTANT Modes.
   Positive modes hold every PC_ invariant.  A necessity mode has an invariant NEC_<mode> which says that the contract
   clause in question is NOT broken - TLC must report it violated (extras/download_producer/check.py checks that it
   does): these are the design-level explanations of the deviations found in the real code. *)
EXTENDS ProducerConsumer

CONSTANTS Modes, N, MaxMoves

VARIABLES mode, S, clause, log, st, alive, nxt, fetch, held, heldOn, pcur, pgen, wakeQ, wdepth, inReg, raisedX,
          pstopped, pend, moves, turn
vars == <<mode, S, clause, log, st, alive, nxt, fetch, held, heldOn, pcur, pgen, wakeQ, wdepth, inReg, raisedX,
          pstopped, pend, moves, turn>>

Design(d) ==
  CASE d = "intended"     -> [push |-> TRUE, hold |-> TRUE, recheck |-> TRUE, unregErr |-> TRUE, stopNow |-> TRUE,
                              fetchPaused |-> FALSE, pauseInReg |-> TRUE]
    [] d = "segmentation" -> [push |-> TRUE, hold |-> FALSE, recheck |-> TRUE, unregErr |-> TRUE, stopNow |-> TRUE,
                              fetchPaused |-> FALSE, pauseInReg |-> TRUE]
    [] d = "retrieve"     -> [push |-> TRUE, hold |-> TRUE, recheck |-> FALSE, unregErr |-> FALSE, stopNow |-> FALSE,
                              fetchPaused |-> TRUE, pauseInReg |-> FALSE]
    [] d = "retrieve_u"   -> [push |-> TRUE, hold |-> TRUE, recheck |-> FALSE, unregErr |-> TRUE, stopNow |-> FALSE,
                              fetchPaused |-> TRUE, pauseInReg |-> TRUE]
    [] d = "pull"         -> [push |-> FALSE, hold |-> TRUE, recheck |-> TRUE, unregErr |-> TRUE, stopNow |-> TRUE,
                              fetchPaused |-> FALSE, pauseInReg |-> TRUE]
    [] d = "filesender"   -> [push |-> FALSE, hold |-> TRUE, recheck |-> TRUE, unregErr |-> FALSE, stopNow |-> TRUE,
                              fetchPaused |-> FALSE, pauseInReg |-> TRUE]

M(d, adv, stop, fault, raise, regpause) == [design |-> d, adv |-> adv, stop |-> stop, fault |-> fault, raise |-> raise, regpause |-> regpause]
ModeDef(m) ==
  CASE m = "intended_any"          -> M("intended", "any", TRUE, TRUE, TRUE, TRUE)
    [] m = "segmentation_inwrite"  -> M("segmentation", "inwrite", TRUE, TRUE, TRUE, TRUE)
    [] m = "retrieve_inwrite"      -> M("retrieve", "inwrite", FALSE, FALSE, FALSE, FALSE)
    [] m = "pull_any"              -> M("pull", "any", TRUE, FALSE, TRUE, TRUE)
    [] m = "filesender_plain"      -> M("filesender", "any", FALSE, FALSE, FALSE, TRUE)
    \* necessity modes
    [] m = "segmentation_any"      -> M("segmentation", "any", FALSE, FALSE, FALSE, TRUE)
    [] m = "retrieve_any"          -> M("retrieve_u", "any", FALSE, FALSE, FALSE, TRUE)
    [] m = "retrieve_stop"         -> M("retrieve", "inwrite", TRUE, FALSE, FALSE, FALSE)
    [] m = "retrieve_fault"        -> M("retrieve", "inwrite", FALSE, TRUE, FALSE, FALSE)
    [] m = "retrieve_regpause"     -> M("retrieve", "inwrite", FALSE, FALSE, FALSE, TRUE)
    [] m = "filesender_stop"       -> M("filesender", "any", TRUE, FALSE, FALSE, TRUE)
    [] m = "filesender_raise"      -> M("filesender", "any", FALSE, FALSE, TRUE, TRUE)

A == ModeDef(mode)
D == Design(A.design)

Want == [i \in 1..N |-> i]

Init ==
  /\ mode \in Modes
  /\ S = PCNew(Want, ModeDef(mode).fault)
  /\ clause = "" /\ log = <<>>
  /\ st = "new" /\ alive = TRUE /\ nxt = 1 /\ fetch = FALSE /\ held = FALSE /\ heldOn = 0
  /\ pcur = 0 /\ pgen = 0 /\ wakeQ = {} /\ wdepth = 0 /\ inReg = FALSE /\ raisedX = FALSE /\ pstopped = FALSE
  /\ pend = "" /\ moves = 0 /\ turn = 0

(* ---- events through the contract ---- *)
Tag(e) == IF e.ev = "Write" THEN "W" ELSE IF e.ev = "Register" THEN "G" ELSE IF e.ev = "Unregister" THEN "U"
          ELSE IF e.ev = "Fired" THEN (IF e.res = "ok" THEN "F" ELSE "E") ELSE IF e.ev = "Pause" THEN "p"
          ELSE IF e.ev = "Resume" THEN "r" ELSE IF e.ev = "Stop" THEN "s" ELSE IF e.ev = "Raise" THEN "x" ELSE "."
RECURSIVE Run(_, _, _, _)
\* apply a sequence of events: [S, c, log]
Run(s, c, lg, es) ==
  IF es = <<>> THEN [S |-> s, c |-> c, log |-> lg]
  ELSE LET r == PCStep(s, Head(es)) IN
       Run(r.S, IF c = "" THEN r.c ELSE c, IF Tag(Head(es)) = "." THEN lg ELSE Append(lg, Tag(Head(es))), Tail(es))
Emit(es) == LET r == Run(S, clause, log, es) IN S' = r.S /\ clause' = r.c /\ log' = r.log

Origin == IF wdepth > 0 THEN "write" ELSE IF inReg THEN "register" ELSE "outside"
EvWrite == [ev |-> "Write", data |-> <<Want[nxt]>>]
EvUnreg == [ev |-> "Unregister"]
EvMove(name) == [ev |-> name, origin |-> Origin, t |-> turn]
EvRet(name) == [ev |-> "Ret", m |-> name, raised |-> ""]

(* ---- producer ---- *)
Start ==
  /\ st = "new" /\ st' = "run"
  /\ Emit(<<[ev |-> "Register", streaming |-> D.push]>>)
  /\ inReg' = TRUE
  /\ UNCHANGED <<mode, alive, nxt, fetch, held, heldOn, pcur, pgen, wakeQ, wdepth, raisedX, pstopped, pend, moves, turn>>

RegReturn ==
  /\ inReg /\ wdepth = 0 /\ inReg' = FALSE
  /\ UNCHANGED <<mode, S, clause, log, st, alive, nxt, fetch, held, heldOn, pcur, pgen, wakeQ, wdepth, raisedX, pstopped, pend, moves, turn>>

TopLevel == st = "run" /\ ~inReg /\ wdepth = 0
\* the producer's own idea of being paused (pcur = the pause it is in; retrieve: the pause Deferred)
PPaused == pcur # 0

\* the read fails: (unregister,) errback
FailEvents == IF D.unregErr /\ S.reg = "yes" THEN <<EvUnreg>> ELSE <<>>

Fetch ==
  /\ D.push /\ TopLevel /\ alive /\ ~fetch /\ ~held /\ nxt <= N /\ (D.fetchPaused \/ ~PPaused)
  /\ fetch' = TRUE
  /\ UNCHANGED <<mode, S, clause, log, st, alive, nxt, held, heldOn, pcur, pgen, wakeQ, wdepth, inReg, raisedX, pstopped, pend, moves, turn>>

\* the checkpoint before a write (retrieve: _check_for_stopped), then the write
Deliver(es) ==
  IF pstopped
    THEN /\ Emit(es \o FailEvents) /\ alive' = FALSE /\ pend' = "err" /\ UNCHANGED <<nxt, wdepth>>
    ELSE /\ Emit(es \o <<EvWrite>>) /\ nxt' = nxt + 1 /\ wdepth' = wdepth + 1 /\ UNCHANGED <<alive, pend>>

Arrive ==
  /\ D.push /\ TopLevel /\ fetch /\ fetch' = FALSE /\ turn' = turn + 1
  /\ IF ~alive THEN UNCHANGED <<S, clause, log, alive, nxt, wdepth, pend, held, heldOn>>
     ELSE IF D.hold /\ PPaused THEN held' = TRUE /\ heldOn' = pcur /\ UNCHANGED <<S, clause, log, alive, nxt, wdepth, pend>>
     ELSE Deliver(<<>>) /\ UNCHANGED <<held, heldOn>>
  /\ UNCHANGED <<mode, st, pcur, pgen, wakeQ, inReg, raisedX, pstopped, moves>>

Fault ==
  /\ A.fault /\ D.push /\ TopLevel /\ fetch /\ alive
  /\ fetch' = FALSE /\ turn' = turn + 1 /\ alive' = FALSE /\ pend' = "err"
  /\ Emit(FailEvents)
  /\ UNCHANGED <<mode, st, nxt, held, heldOn, pcur, pgen, wakeQ, wdepth, inReg, raisedX, pstopped, moves>>

\* the eventual-send queued by resumeProducing runs
Wake(g) ==
  /\ D.push /\ TopLevel /\ g \in wakeQ /\ wakeQ' = wakeQ \ {g} /\ turn' = turn + 1
  /\ IF alive /\ held /\ heldOn = g
       THEN IF D.recheck /\ PPaused
              THEN heldOn' = pcur /\ UNCHANGED <<S, clause, log, alive, nxt, wdepth, pend, held>>
              ELSE held' = FALSE /\ heldOn' = 0 /\ Deliver(<<>>)
       ELSE UNCHANGED <<S, clause, log, alive, nxt, wdepth, pend, held, heldOn>>
  /\ UNCHANGED <<mode, st, fetch, pcur, pgen, inReg, raisedX, pstopped, moves>>

\* consumer.write() returns (or raises)
WriteReturn ==
  /\ wdepth > 0 /\ wdepth' = wdepth - 1
  /\ IF raisedX /\ D.push
       THEN /\ Emit(FailEvents) /\ alive' = FALSE /\ pend' = "err" /\ raisedX' = FALSE
       ELSE IF ~D.push
         THEN \* the pull producer's resumeProducing returns to the consumer; an intended one turns the exception into errback
              /\ IF raisedX /\ D.unregErr
                   THEN Emit(FailEvents \o <<EvRet("Resume")>>) /\ alive' = FALSE /\ pend' = "err"
                   ELSE Emit(<<EvRet("Resume")>>) /\ UNCHANGED <<alive, pend>>
              /\ raisedX' = FALSE
         ELSE UNCHANGED <<S, clause, log, alive, pend, raisedX>>
  /\ UNCHANGED <<mode, st, nxt, fetch, held, heldOn, pcur, pgen, wakeQ, inReg, pstopped, moves, turn>>

\* the last chunk was written: unregister, callback (segmentation gets here through _maybe_fetch_next, i.e. when hungry)
Finish ==
  /\ D.push /\ TopLevel /\ alive /\ nxt = N + 1 /\ ~held /\ (D.fetchPaused \/ ~PPaused)
  /\ alive' = FALSE /\ pend' = "ok" /\ Emit(<<EvUnreg>>)
  /\ UNCHANGED <<mode, st, nxt, fetch, held, heldOn, pcur, pgen, wakeQ, wdepth, inReg, raisedX, pstopped, moves, turn>>

Fire ==
  /\ pend # ""
  /\ Emit(<<[ev |-> "Fired", res |-> pend, withc |-> TRUE]>>) /\ pend' = ""
  /\ UNCHANGED <<mode, st, alive, nxt, fetch, held, heldOn, pcur, pgen, wakeQ, wdepth, inReg, raisedX, pstopped, moves, turn>>

(* ---- the adversary ---- *)
CanMove == st = "run" /\ S.reg = "yes" /\ ~S.stopped /\ ~S.broken /\ S.fired = "" /\ pend = "" /\ ~raisedX /\ moves < MaxMoves

CPause ==
  /\ CanMove /\ D.push /\ (A.adv = "any" \/ Origin = "write" \/ (A.regpause /\ Origin = "register"))
  /\ (Origin = "register" => A.regpause)
  /\ moves' = moves + 1
  /\ IF Origin = "register" /\ ~D.pauseInReg
       THEN \* the call raises and the pause is lost
            /\ Emit(<<EvMove("Pause"), [ev |-> "Ret", m |-> "Pause", raised |-> "AttributeError"]>>)
            /\ UNCHANGED <<pcur, pgen>>
       ELSE /\ Emit(<<EvMove("Pause"), EvRet("Pause")>>)
            /\ IF pcur = 0 THEN pgen' = pgen + 1 /\ pcur' = pgen + 1 ELSE UNCHANGED <<pcur, pgen>>
  /\ UNCHANGED <<mode, st, alive, nxt, fetch, held, heldOn, wakeQ, wdepth, inReg, raisedX, pstopped, pend, turn>>

CResumePush ==
  /\ CanMove /\ D.push
  /\ moves' = moves + 1
  /\ Emit(<<EvMove("Resume"), EvRet("Resume")>>)
  /\ IF pcur # 0 THEN wakeQ' = wakeQ \cup {pcur} /\ pcur' = 0 ELSE UNCHANGED <<wakeQ, pcur>>
  /\ UNCHANGED <<mode, st, alive, nxt, fetch, held, heldOn, pgen, wdepth, inReg, raisedX, pstopped, pend, turn>>

CStopPush ==
  /\ CanMove /\ D.push /\ A.stop
  /\ moves' = moves + 1
  /\ IF D.stopNow
       THEN /\ Emit(<<EvMove("Stop")>> \o FailEvents \o <<EvRet("Stop")>>)
            /\ alive' = FALSE /\ pend' = "err" /\ fetch' = FALSE /\ held' = FALSE
            /\ UNCHANGED <<pstopped, wakeQ, pcur>>
       ELSE \* retrieve: set the flag, wake whatever waits; the failure surfaces at the next checkpoint
            /\ Emit(<<EvMove("Stop"), EvRet("Stop")>>)
            /\ pstopped' = TRUE
            /\ IF pcur # 0 THEN wakeQ' = wakeQ \cup {pcur} /\ pcur' = 0 ELSE UNCHANGED <<wakeQ, pcur>>
            /\ UNCHANGED <<alive, pend, fetch, held>>
  /\ UNCHANGED <<mode, st, nxt, heldOn, pgen, wdepth, inReg, raisedX, turn>>

\* the consumer raises from write()
CRaise ==
  /\ CanMove /\ A.raise /\ wdepth > 0
  /\ moves' = moves + 1 /\ raisedX' = TRUE
  /\ Emit(<<[ev |-> "Raise"]>>)
  /\ UNCHANGED <<mode, st, alive, nxt, fetch, held, heldOn, pcur, pgen, wakeQ, wdepth, inReg, pstopped, pend, turn>>

\* pull producer: resumeProducing writes one chunk before it returns, or finishes
CResumePull ==
  /\ CanMove /\ ~D.push /\ alive
  /\ moves' = moves + 1
  /\ IF nxt <= N
       THEN /\ Emit(<<EvMove("Resume"), EvWrite>>) /\ nxt' = nxt + 1 /\ wdepth' = wdepth + 1 /\ UNCHANGED <<alive, pend>>
       ELSE /\ Emit(<<EvMove("Resume"), EvUnreg, EvRet("Resume")>>) /\ alive' = FALSE /\ pend' = "ok" /\ UNCHANGED <<nxt, wdepth>>
  /\ UNCHANGED <<mode, st, fetch, held, heldOn, pcur, pgen, wakeQ, inReg, raisedX, pstopped, turn>>

CStopPull ==
  /\ CanMove /\ ~D.push /\ A.stop
  /\ moves' = moves + 1
  /\ Emit(<<EvMove("Stop")>> \o FailEvents \o <<EvRet("Stop")>>)
  /\ alive' = FALSE /\ pend' = "err"
  /\ UNCHANGED <<mode, st, nxt, fetch, held, heldOn, pcur, pgen, wakeQ, wdepth, inReg, raisedX, pstopped, turn>>

Sched == Start \/ RegReturn \/ Fetch \/ Arrive \/ Fault \/ (\E g \in wakeQ : Wake(g)) \/ WriteReturn \/ Finish \/ Fire
Next == Sched \/ CPause \/ CResumePush \/ CStopPush \/ CRaise \/ CResumePull \/ CStopPull
Spec == Init /\ [][Next]_vars

(* ---- the contract, clause by clause ---- *)
PC_RegisterDiscipline   == clause \notin {"PC_RegisterOnce", "PC_RegisterAfterFired", "PC_UnregisterOnce", "PC_UnregisterWithoutRegister"}
PC_WritesWhileRegistered == clause \notin {"PC_WriteBeforeRegister", "PC_WriteAfterUnregister", "PC_WriteAfterFired"}
PC_NoWriteAfterStop     == clause \notin {"PC_WriteAfterStop", "PC_WriteAfterConsumerError"}
PC_NoWriteWhilePaused   == clause # "PC_WriteWhilePaused"
PC_PullDiscipline       == clause \notin {"PC_PullWriteOutsideResume", "PC_PullOneWritePerResume"}
PC_ExactRange           == clause # "PC_ExactRange"
PC_ResultDiscipline     == clause \notin {"PC_FiredOnce", "PC_SuccessIsComplete", "PC_SpuriousFailure", "PC_ConsumerErrorSwallowed", "PC_FiresWithConsumer"}
PC_ProducerCallsReturn  == clause # "PC_ProducerMethodRaised"
PC_HarnessSane          == clause \notin {"harness_move_outside_registration", "harness_pause_of_pull_producer", "harness_return_without_call", "unknown_event"}
\* [R] unregistered before the Deferred fires, on every path
PC_UnregisterBeforeFired == S.fired # "" => (S.reg # "yes" /\ ~S.firedReg)
\* nothing can happen any more unless the consumer moves: the read is over, or the consumer holds it back
Quiescent == ~ENABLED Sched
PC_Resolves == Quiescent => PCEndHard(S, [lost |-> 0, idle |-> ~D.push]) = ""

\* the same rules read off the history alone (G register, U unregister, W write, p/r/s moves, x raise, F/E result)
Idx(tag) == {i \in 1..Len(log) : log[i] = tag}
H_WritesInsideRegistration == \A w \in Idx("W") : (\E g \in Idx("G") : g < w) /\ (\A u \in Idx("U") : w < u)
H_NoWriteAfterStop == \A w \in Idx("W") : \A s \in Idx("s") \cup Idx("x") : w < s
H_OneOfEach == Cardinality(Idx("G")) <= 1 /\ Cardinality(Idx("U")) <= 1 /\ Cardinality(Idx("F") \cup Idx("E")) <= 1
H_ResultLast == \A f \in Idx("F") \cup Idx("E") : (\A w \in Idx("W") : w < f) /\ (Idx("G") # {} => \E u \in Idx("U") : u < f)
H_SuccessComplete == Idx("F") # {} => Cardinality(Idx("W")) = N
H_PausedSilence ==      \* push: between a pause and the next resume no write
  D.push => \A w \in Idx("W") : LET ps == {p \in Idx("p") : p < w} IN
                                 ps # {} => \E r \in Idx("r") : r > SetMax(ps) /\ r < w

(* ---- necessity: each of these must be reported violated ---- *)
NEC_segmentation_any   == mode = "segmentation_any"   => PC_NoWriteWhilePaused
NEC_retrieve_any       == mode = "retrieve_any"       => PC_NoWriteWhilePaused
NEC_retrieve_stop      == mode = "retrieve_stop"      => PC_UnregisterBeforeFired
NEC_retrieve_fault     == mode = "retrieve_fault"     => PC_UnregisterBeforeFired
NEC_retrieve_regpause  == mode = "retrieve_regpause"  => PC_ProducerCallsReturn
NEC_filesender_stop    == mode = "filesender_stop"    => PC_UnregisterBeforeFired
NEC_filesender_raise   == mode = "filesender_raise"   => PC_Resolves
\* CONSTRAINT of the necessity run: a behaviour is not followed beyond the first state that shows the deviation
NecFirst == clause = "" /\ PC_UnregisterBeforeFired
=============================================================================
