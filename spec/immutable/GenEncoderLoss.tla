-------------------------- MODULE GenEncoderLoss --------------------------
(* GEN mode for C08, the call site "used for upload decisions": the immutable
   Encoder (immutable/encode.py) re-evaluates the servers-of-happiness value of
   its share map every time it loses a share writer (_remove_shareholder) and
   gives the upload up as soon as the value falls below `happy`.

   A configuration says, for every share number, which server is being written
   to (w, or NoW when the uploader writes no copy of that share) and on which
   other servers the uploader found the share already (pre).  The share map of
   the Encoder is  share -> {w} \cup pre.  A case = configuration, happy (any
   value the initial map satisfies), and a sequence of distinct writers that are
   lost one after the other (in different phases of the upload, so the order is
   fixed).  Losing the writer of share sh removes server w from the entry of sh
   only (the entry disappears when it becomes empty): a server that holds a
   second share stays in the map through that share.

   Expected, computed with Happiness.tla: the happiness value after every loss,
   and `doom` = the first loss after which the value is below happy (0 = none:
   the upload succeeds with the shares whose writers were not lost).  After
   `doom` the Encoder starts no further phase, so later losses do not happen.

   Servers are interchangeable: with Canon the configurations are taken modulo
   renaming of the servers (labels appear in order of first occurrence when the
   shares are listed with the writer first and the other holders ascending). *)
EXTENDS Happiness, Json, IOUtils, SequencesExt

CONSTANTS NSrv, NSh, Canon, MaxSeq,
          Maximal     \* TRUE: of the sequences that do not doom the upload keep only those that cannot be extended without dooming it

Servers == 1..NSrv
Shares == 0..(NSh - 1)
NoW == 0

ShareCfgs == {c \in [w : Servers \cup {NoW}, pre : SUBSET Servers] : c.w \notin c.pre}
Cfgs == [Shares -> ShareCfgs]

Holders(c) == c.pre \cup (IF c.w = NoW THEN {} ELSE {c.w})
MapOf(cfg) == [sh \in {s \in Shares : Holders(cfg[s]) # {}} |-> Holders(cfg[sh])]
Writers(cfg) == {sh \in Shares : cfg[sh].w # NoW}

\* first position (share-major: writer first, then the other holders ascending) at which a server occurs; Big if never
Big == 1000
PosIn(c, s) == IF c.w = s THEN 0 ELSE IF s \in c.pre THEN 1 + Cardinality({t \in c.pre : t < s}) ELSE Big
FirstPos(cfg, s) ==
  LET hit == {sh \in Shares : s \in Holders(cfg[sh])} IN
  IF hit = {} THEN Big
  ELSE LET sh == CHOOSE x \in hit : \A y \in hit : x <= y IN sh * (NSrv + 1) + PosIn(cfg[sh], s)
Canonical(cfg) == \A s \in 2..NSrv : FirstPos(cfg, s) < Big => FirstPos(cfg, s - 1) < FirstPos(cfg, s)

\* the Encoder's share map after the writers seq[1..j] were lost
Lost(cfg, seq, j) == {seq[i] : i \in 1..j}
After(cfg, seq, j) ==
  LET lost == Lost(cfg, seq, j)
      h(sh) == IF sh \in lost THEN cfg[sh].pre ELSE Holders(cfg[sh])
  IN [sh \in {s \in Shares : h(s) # {}} |-> h(sh)]

HapAfter(cfg, seq) == [j \in 1..Len(seq) |-> Happiness(After(cfg, seq, j))]
DoomOf(hs, happy) ==
  LET bad == {j \in 1..Len(hs) : hs[j] < happy} IN
  IF bad = {} THEN 0 ELSE CHOOSE j \in bad : \A i \in bad : j <= i

\* sequences of distinct writers, length 0..MaxSeq
SeqsOf(W) == UNION {{s \in [1..n -> W] : \A i, j \in 1..n : i # j => s[i] # s[j]} : n \in 0..Min(MaxSeq, Cardinality(W))}

\* (a sequence that goes on after the dooming loss adds nothing: those losses never happen)
CasesOf(cfg) ==
  LET h0 == Happiness(MapOf(cfg))
      all == {[cfg |-> [sh \in Shares |-> [w |-> cfg[sh].w, pre |-> SetToSortSeq(cfg[sh].pre, <)]],
               happy |-> hp, seq |-> sq, h0 |-> h0, hs |-> HapAfter(cfg, sq), doom |-> DoomOf(HapAfter(cfg, sq), hp)] :
                hp \in 1..h0, sq \in SeqsOf(Writers(cfg))}
      more(x) == {w \in Writers(cfg) : \A i \in 1..Len(x.seq) : x.seq[i] # w}
      maximal(x) == \A w \in more(x) : Len(x.seq) = MaxSeq \/ DoomOf(HapAfter(cfg, Append(x.seq, w)), x.happy) # 0
  IN {x \in all : x.doom \in {0, Len(x.seq)} /\ ((Maximal /\ x.doom = 0) => maximal(x))}

GoodCfgs == {cfg \in Cfgs : Writers(cfg) # {} /\ (Canon => Canonical(cfg))}
Cases == UNION {CasesOf(cfg) : cfg \in GoodCfgs}

ASSUME ndJsonSerialize(IOEnv.OUT_FILE, SetToSeq(Cases))

VARIABLE c
Init == c \in Cases
Next == UNCHANGED c
Spec == Init /\ [][Next]_c

MapAfter(cs, j) == After([sh \in Shares |-> [w |-> cs.cfg[sh].w, pre |-> ToSet(cs.cfg[sh].pre)]], cs.seq, j)
\* the table is the statement: every value is the maximum matching computed by the independent definition as well
C08_TableIsMatching == \A j \in 1..Len(c.seq) : c.hs[j] = MaxMatchingRec(Invert(MapAfter(c, j)))
\* losing a writer never raises the value, and lowers it by at most one
C08_LossMonotone == \A j \in 1..Len(c.seq) : LET prev == IF j = 1 THEN c.h0 ELSE c.hs[j - 1] IN c.hs[j] \in {prev, prev - 1}
\* the table is not degenerate: some case is doomed by a loss that leaves the set of servers in the map unchanged
SrvSet(m) == UNION {m[sh] : sh \in DOMAIN m}
C08_DoomMeaning == c.doom # 0 => (c.hs[c.doom] < c.happy /\ \A j \in 1..(c.doom - 1) : c.hs[j] >= c.happy)
=============================================================================
