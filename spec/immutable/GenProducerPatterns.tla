----------------------- MODULE GenProducerPatterns -----------------------
(* GEN: the moves of the adversarial consumer of ProducerConsumer.tla / MCProducerConsumer.tla as finite scripts that
   the harness replays against the real producers (harness/producer_driver.py).  A script places at most MaxLen moves
   on the slots
      reg (inside registerProducer)   w1 (inside the first write)   o1 (from the outside, after the first write returned)
      w2 (inside the second write)    o2 (from the outside, after the second write returned)
   move: "P" pauseProducing, "R" resumeProducing, "S" stopProducing (last move of a script: the consumer is gone),
   "X" the consumer raises from write() (write slots only; last move of a script).
   Every script of that shape is written; the expected behaviour is not a value but the contract, so the recorded
   reads are judged by TraceProducerConsumer.tla. *)
EXTENDS Integers, Sequences, FiniteSets, TLC, Json, IOUtils, SequencesExt

CONSTANT MaxLen

Slots == <<"reg", "w1", "o1", "w2", "o2">>
Moves == {"P", "R", "S", "X"}
Final == {"S", "X"}

WellFormed(s) ==
  /\ \A i \in 1..Len(s) : s[i][2] = "X" => Slots[s[i][1]] \in {"w1", "w2"}
  /\ \A i \in 1..(Len(s) - 1) : s[i][1] <= s[i + 1][1] /\ s[i][2] \notin Final

Raw == UNION {[1..n -> (1..Len(Slots)) \X Moves] : n \in 0..MaxLen}
Scripts == {s \in Raw : WellFormed(s)}

RECURSIVE MovesAt(_, _, _)
MovesAt(s, k, i) == IF i > Len(s) THEN <<>>
                    ELSE (IF s[i][1] = k THEN <<s[i][2]>> ELSE <<>>) \o MovesAt(s, k, i + 1)

CaseOf(s) == [reg |-> MovesAt(s, 1, 1), w1 |-> MovesAt(s, 2, 1), o1 |-> MovesAt(s, 3, 1), w2 |-> MovesAt(s, 4, 1),
              o2 |-> MovesAt(s, 5, 1), len |-> Len(s)]
Cases == {CaseOf(s) : s \in Scripts}

ASSUME ndJsonSerialize(IOEnv.OUT_FILE, SetToSeq(Cases))

VARIABLE c
Init == c \in Cases
Next == UNCHANGED c
Spec == Init /\ [][Next]_c
\* the table itself: a stop or an exception ends a script
TableOK == \A k \in {"reg", "w1", "o1", "w2", "o2"} : \A i \in 1..(Len(c[k]) - 1) : c[k][i] \notin Final
=============================================================================
