-------------------------- MODULE MCDownloadReads --------------------------
(* Model checking of the immutable read path (DownloadReads.tla): several reads
   of arbitrary ranges on ONE node, segments arriving at any time, the eventual
   queue running at any time, consumers pausing / resuming / stopping at any
   point (between turns or inside write()).  The properties are stated over the
   ghost `asked` (what each reader asked for) and the pieces each consumer
   received, independently of the operators. *)
EXTENDS DownloadReads

CONSTANTS Readers,    \* reader ids
          FSize,      \* file size
          FSeg,       \* real segment size
          Guess,      \* segment size guessed before the UEB is known
          Offs, Szs,  \* offsets and sizes a read may use
          WithNone,   \* also size=None
          MaxEnv      \* bound on consumer pause/stop actions

VARIABLES S, asked, nenv
vars == <<S, asked, nenv>>

F == [fsize |-> FSize, segsize |-> FSeg, guess |-> Guess]
SizeChoices == Szs \cup (IF WithNone THEN {Unlimited} ELSE {})

Init == /\ S = InitNode(Readers)
        /\ asked = [r \in Readers |-> [started |-> FALSE, off |-> 0, size |-> 0]]
        /\ nenv = 0

DoRead(r) == /\ ~asked[r].started
             /\ \E off \in Offs, size \in SizeChoices :
                  /\ S' = Read(F, S, r, off, size)
                  /\ asked' = [asked EXCEPT ![r] = [started |-> TRUE, off |-> off, size |-> size]]
             /\ UNCHANGED nenv
DoLearn == CanLearnUEB(S) /\ S' = LearnUEB(S) /\ UNCHANGED <<asked, nenv>>
DoArrive == CanSegmentArrive(F, S) /\ S' = SegmentArrives(S) /\ UNCHANGED <<asked, nenv>>
DoBad == CanBadSegment(F, S) /\ S' = BadSegment(S) /\ UNCHANGED <<asked, nenv>>
DoEventual == /\ S.evq # <<>>
              /\ \/ S' = RunEventual(F, S, "cont") /\ UNCHANGED nenv
                 \/ /\ HeadWrites(S) /\ nenv < MaxEnv
                    /\ \E c \in {"pause", "stop"} : S' = RunEventual(F, S, c)
                    /\ nenv' = nenv + 1
              /\ UNCHANGED asked
DoPause(r) == /\ S.rd[r].st = "run" /\ S.rd[r].hungry /\ nenv < MaxEnv
              /\ S' = PauseR(S, r) /\ nenv' = nenv + 1 /\ UNCHANGED asked
DoResume(r) == /\ S.rd[r].st = "run" /\ ~S.rd[r].hungry
               /\ S' = ResumeR(S, r) /\ UNCHANGED <<asked, nenv>>
DoStop(r) == /\ S.rd[r].st = "run" /\ nenv < MaxEnv
             /\ S' = StopR(S, r) /\ nenv' = nenv + 1 /\ UNCHANGED asked

Internal == DoLearn \/ DoArrive \/ DoBad \/ DoEventual
Next == Internal \/ \E r \in Readers : DoRead(r) \/ DoPause(r) \/ DoResume(r) \/ DoStop(r)
Spec == Init /\ [][Next]_vars /\ WF_vars(Internal)

(* ---- properties ---------------------------------------------------------------- *)
\* the slice a reader asked for, as the half-open interval [WantLo, WantHi) clipped at EOF (empty if WantHi <= WantLo)
WantLo(r) == asked[r].off
WantHi(r) == IF asked[r].size = Unlimited THEN FSize ELSE Min(FSize, asked[r].off + asked[r].size)
Started == {r \in Readers : asked[r].started}
Out(r) == S.rd[r].out

\* what a consumer has received is always an in-order, gap-free, non-empty-piece prefix of its slice
C04_Prefix == \A r \in Started : \A i \in 1..Len(Out(r)) :
                 /\ Out(r)[i].lo = (IF i = 1 THEN WantLo(r) ELSE Out(r)[i - 1].hi)
                 /\ Out(r)[i].lo < Out(r)[i].hi
                 /\ Out(r)[i].hi <= WantHi(r)
\* a read that reports success delivered exactly its slice (clipped at EOF, nothing at or past EOF)
C04_Slice == \A r \in Started : S.rd[r].st = "done" =>
                IF WantHi(r) <= WantLo(r) THEN Out(r) = <<>>
                ELSE Out(r) # <<>> /\ Out(r)[Len(Out(r))].hi = WantHi(r)
C04_NoSpuriousError == \A r \in Readers : S.rd[r].st # "error"
\* the CTR keystream position used for each piece is the file position of the piece
C04_CtrAligned == \A r \in Readers : \A i \in 1..Len(S.rd[r].out) : S.rd[r].out[i].ks = S.rd[r].out[i].lo
C04_OnePiecePerSegment == \A r \in Readers : \A i \in 1..Len(S.rd[r].out) :
                             /\ S.rd[r].out[i].lo < S.rd[r].out[i].hi
                             /\ S.rd[r].out[i].lo \div FSeg = (S.rd[r].out[i].hi - 1) \div FSeg
\* the shared queue: a pending request always has a fetch running for the head of the queue
C04_QueueServed == /\ (S.reqs # <<>> => S.active # NoSeg)
                   /\ (S.active # NoSeg => \E i \in 1..Len(S.reqs) : S.reqs[i].seg = S.active)
                   /\ \A r \in S.cact : S.rd[r].st = "run" /\ S.rd[r].aseg # NoSeg
\* isolation, safety form: when the node is idle every read that was not stopped or paused by its OWN consumer is complete
C04_QuiescentResolved == ~NodeBusy(F, S) =>
                           \A r \in Started : S.rd[r].st \in {"done", "stopped"} \/ ~S.rd[r].hungry
\* isolation, liveness form: whatever the other consumers do, a read that is not stopped and is eventually left hungry completes
C04_Isolation == \A r \in Readers :
                   (<>[](asked[r].started /\ S.rd[r].st # "stopped" /\ (S.rd[r].st = "run" => S.rd[r].hungry)))
                     => <>(S.rd[r].st = "done")
Sym == Permutations(Readers)
TypeOK == /\ S.active \in {NoSeg} \cup 0..(FSize + 1)
          /\ \A r \in Readers : S.rd[r].st \in {"new", "run", "done", "stopped", "error"}
=============================================================================
