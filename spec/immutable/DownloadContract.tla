------------------------- MODULE DownloadContract -------------------------
(* The contract of an immutable read, as operators over explicit values: what may be delivered to a consumer
   (C02), how a read may end given the ground truth of the shares (C03), and what must hold when nothing can
   happen any more (C46).  Used by the actions of Download.tla (design level) and by TraceDownload.tla, which
   judges recorded executions of the real downloader with the very same definitions. *)
EXTENDS Common

CONSTANT ClearOnFailure   \* rule for _active_segment in the failure branch of process_blocks:
                          \* FALSE = what node.py does (cleared only on success), TRUE = the intended rule

(* ======================= contract operators (shared with trace validation) ======================= *)
\* DownloadNode.read: clip the size at EOF, never negative
Clip(off, len, size) == Max(0, Min(len, size - off))
\* segments overlapping [off, off+len)
SegsOf(off, len, segsize) == IF len <= 0 THEN {} ELSE (off \div segsize)..((off + len - 1) \div segsize)

\* state of one read() as the contract sees it
NewRead(off, len, size) == [off |-> off, end |-> off + Clip(off, len, size), pos |-> off, st |-> "pending", res |-> ""]
\* (MC readers additionally carry next, the next segment wanted, and clause, the first contract clause violated)

\* C02: bytes reach the consumer only while the read is pending, only genuine bytes, consecutively from the
\* start of the requested range and never past its end.  "" = allowed.
DeliverClause(rd, off, len, matches) ==
  IF rd.st # "pending" THEN "C02_DeliverAfterResult"
  ELSE IF ~matches THEN "C02_OnlyGenuine"
  ELSE IF off # rd.pos \/ len <= 0 \/ off + len > rd.end THEN "C02_PrefixDiscipline"
  ELSE ""
AfterDeliver(rd, len) == [rd EXCEPT !.pos = rd.pos + len]

\* ground truth G of a file on a grid:
\*   k, consistent (the encoder hashed the ciphertext it encoded), strictGood (share numbers with an instance that
\*   is byte-for-byte intact on a server that answers every call), usable[seg] (share numbers with an instance
\*   that can show the genuine block of seg at all)
UsableEnough(G, segs) == \A seg \in segs : Cardinality(G.usable[seg]) >= G.k
StrictEnough(G) == Cardinality(G.strictGood) >= G.k /\ G.consistent
AllowedErrors(G) == {"NotEnoughSharesError", "NoSharesError"} \cup (IF G.consistent THEN {} ELSE {"BadCiphertextHashError"})

\* C02 / C03 at the result of a read.  segs = segments of the requested range.
ResultClause(rd, res, G, segs) ==
  IF rd.st # "pending" THEN "C46_ResolvedTwice"
  ELSE IF res = "ok" /\ rd.pos # rd.end THEN "C02_SuccessIsComplete"
  ELSE IF res = "ok" /\ ~UsableEnough(G, segs) THEN "C03_NoFalseSuccess"
  ELSE IF res # "ok" /\ StrictEnough(G) THEN "C03_Available"
  ELSE IF res # "ok" /\ res \notin AllowedErrors(G) THEN "C03_ErrorClass"
  ELSE IF res # "ok" /\ rd.pos = rd.end /\ rd.end > rd.off THEN "C02_ErrorAfterAllBytes"
  ELSE ""
AfterResult(rd, res) == [rd EXCEPT !.st = IF res = "ok" THEN "done" ELSE "failed", !.res = res]

Resolved(rd) == rd.st \in {"done", "failed", "stopped"}

\* the node after a read ended with res: under the code's rule a decode / ciphertext-hash failure leaves
\* _active_segment set, and every later get_segment on this node waits for ever
StuckAfter(res) == res = "BadCiphertextHashError" /\ ~ClearOnFailure

\* C46 (safety form): when nothing can happen any more every read is resolved.  stuck = the node went through
\* the failure branch of process_blocks under the code's rule (names the clause, never excuses it)
QuiescentClause(reads, stuckNodes) ==
  LET unres == {r \in DOMAIN reads : ~Resolved(reads[r])} IN
  IF unres = {} THEN ""
  ELSE IF \E r \in unres : reads[r].node \in stuckNodes THEN "C46_QuiescentResolved_afterProcessFail"
  ELSE "C46_QuiescentResolved"

=============================================================================
