------------------------ MODULE TraceEncoderProtocol ------------------------
(* Trace validation of the real immutable.encode.Encoder
   (harness/encoder_driver.py) against EncoderProtocol.

   A trace is one run of a real Encoder on the virtual reactor with recording
   fake IStorageBucketWriters (answers immediate or parked and delivered in a
   seeded order; seeded failures at any call) and a minimal
   IEncryptedUploadable whose ciphertext is Codec.tla's symbolic file (byte at
   offset x = x + 1):
     consts : size, k, n, seg, happy, writers, peers (per share, "-" = no
              writer), smap0 (per share: list of server ids), canon (per
              segment and share: the representative [s, i] of the blocks with
              the same bytes, from a reference encoding of what was read)
     events : params                         get_param / get_uri_extension_size before start()
              read(len, got, hash_only)      read_encrypted is called
              read_ret                       ... and answered
              uclose                         IEncryptedUploadable.close
              call(w, m, ...)                a call on writer w with abstracted arguments (m = abort included)
              ret(w, m, ok)                  the call is answered / fails
              user_abort                     Encoder.abort()
              result(kind, ...)              start()'s Deferred fired
              quiescent                      nothing is outstanding any more
   Only calls that cross the IStorageBucketWriter / IEncryptedUploadable /
   IEncoder interfaces are looked at.  The verdict is the name of the first
   clause that fails ("" = accepted); clauses starting with harness_ are
   consistency checks of the recording, XE_ are protocol rules. *)
EXTENDS EncoderProtocol, Json, IOUtils, TLCExt

Traces == JsonDeserialize(IOEnv.TRACE_FILE)

VARIABLES tid, l, E, X, bad,
          C              \* the configuration of the trace (CfgOf, computed once)
tvars == <<tid, l, E, X, bad, C>>

K0 == Traces[tid].consts
Events == Traces[tid].events
WritersOf(k0) == ToSet(k0.writers)
CfgOf(k0) ==
  [size |-> k0.size, k |-> k0.k, n |-> k0.n, seg |-> k0.seg, happy |-> k0.happy,
   writers |-> WritersOf(k0),
   peer |-> [w \in WritersOf(k0) |-> k0.peers[w + 1]],
   smap0 |-> [t \in {x \in 0..(k0.n - 1) : k0.smap0[x + 1] # <<>>} |-> ToSet(k0.smap0[t + 1])],
   ns |-> EncNumSegments(k0.size, k0.seg), canon |-> k0.canon]
NS == C.ns
Canon == C.canon

\* X: what the trace verdicts remember besides the protocol state (blockBytes[w] = bytes put_block gave to writer w so far)

V(c, e, x) == [c |-> c, E |-> e, X |-> x]
Same(c) == V(c, E, X)

(* ---- contents of a call ------------------------------------------------------------------ *)
SeqIs(seq, tree, n) == Len(seq) = Size(n) /\ \A j \in Nodes(n) : seq[j + 1] = tree[j]

BlockOK(e) ==
  LET b == ExpectedBlock(C, e.seg, e.w) IN
  /\ e.blk = BlockTerm(Canon, e.seg, e.w)
  /\ Len(e.data) = BlockLenOf(C, e.seg)
  /\ b.visible.known => e.data = b.visible.data

ShareChainOK(e) ==
  LET P == ToSet(e.pairs)
      idx == {p[1] : p \in P}
      st == ShareTree(Canon, NS, C.n)
  IN /\ idx = ShareChainNodes(C.n, e.w)
     /\ Len(e.pairs) = Cardinality(idx)
     /\ \A p \in P : p[2] = st[p[1]]

UEBOK(e) ==
  /\ ToSet(e.ueb.keys) = UEBKeys /\ e.ueb.sorted
  /\ e.ueb.fields = ExpectedUEB(C, Canon)
  /\ e.ueb.len = UEBSize(C.size, C.k, C.n, C.seg)

ContentClause(e) ==
  CASE e.m = "put_block" -> IF BlockOK(e) THEN "" ELSE "XE_Content:put_block"
    [] e.m = "put_crypttext_hashes" -> IF SeqIs(e.hashes, CtTree(NS), NS) THEN "" ELSE "XE_Content:put_crypttext_hashes"
    [] e.m = "put_block_hashes" -> IF SeqIs(e.hashes, BlockTree(Canon, NS, e.w), NS) THEN "" ELSE "XE_Content:put_block_hashes"
    [] e.m = "put_share_hashes" -> IF ShareChainOK(e) THEN "" ELSE "XE_Content:put_share_hashes"
    [] e.m = "put_uri_extension" -> IF ~UEBOK(e) THEN "XE_Content:put_uri_extension"
                                    ELSE IF e.ueb.copy # 0 THEN "XE_SameUEBEverywhere" ELSE ""
    [] OTHER -> ""

(* ---- events ---------------------------------------------------------------------------------- *)
VParams(e) ==
  IF ~(/\ e.num_segments = NS /\ e.segment_size = C.seg
       /\ e.share_counts = <<C.k, C.happy, C.n>>
       /\ e.block_size = EncBlockSize(C.k, C.seg)
       /\ e.share_size = EncShareDataSize(C.size, C.k)
       /\ e.ueb_size = UEBSize(C.size, C.k, C.n, C.seg))
    THEN Same("XE_Params")
  ELSE V("", E, [X EXCEPT !.params = TRUE])

VAbortCall(e) ==
  IF e.w \notin C.writers THEN Same("harness_unknown_writer")
  ELSE IF ~(e.w \in E.dropped \/ E.doomed \/ E.uabort = "early" \/ E.res = "failure")
    THEN Same("XE_AbortOnlyLostOrFailed")
  ELSE V("", StepAbortCall(E, e.w), [X EXCEPT !.aborts = @ + 1])

VCall(e) ==
  IF e.m = "abort" THEN VAbortCall(e)
  ELSE
  LET p == PhaseOf(e.m, IF e.m = "put_block" THEN e.seg ELSE NoSeg, NS) IN
  IF e.w \notin C.writers THEN Same("harness_unknown_writer")
  ELSE IF p = 0 THEN Same("XE_CallOrder")                               \* an unknown call, or a segment number out of range
  ELSE IF E.res # "none" THEN Same("XE_NoCallAfterResult")
  ELSE IF e.w \in E.dropped \/ e.w \in E.aborted THEN Same("XE_NoCallAfterFailure")
  ELSE IF IsSegPhase(p, NS) /\ (E.ph < p \/ Reading(E)) THEN Same("XE_ReadBeforeBlocks")     \* the segment was not read yet
  ELSE IF IsSegPhase(p, NS) /\ E.cancelled THEN Same("XE_AbortStopsReading")
  ELSE LET f == Forward(E, p, NS) IN
       IF f.why # "" THEN Same(f.why)
       ELSE IF e.w \in f.E.called THEN Same("XE_CallOrder")                   \* the same call twice
       ELSE IF ContentClause(e) # "" THEN Same(ContentClause(e))
       ELSE V("", StepCall(f.E, e.w),
              IF e.m = "put_block" THEN [X EXCEPT !.blockBytes[e.w] = @ + Len(e.data)] ELSE X)

VRet(e) ==
  IF e.w \notin E.out THEN Same("harness_answer_without_call")
  ELSE IF e.ok THEN V("", StepRetOk(E, e.w, e.m = "close"), X)
  ELSE V("", StepRetFail(E, C, e.w), [X EXCEPT !.lateFail = @ \/ E.res # "none"])

VRead(e) ==
  LET s == E.nread IN
  IF s >= NS THEN Same("XE_ReadOncePerSegment")
  ELSE IF E.uabort = "early" THEN Same("XE_AbortStopsReading")
  ELSE LET f == Forward(E, PSeg(s), NS) IN
       IF f.why # "" THEN Same(f.why)
       ELSE IF e.hash_only \/ e.len # ExpectedReadLen(C, s) THEN Same("XE_ReadSize")
       ELSE IF e.got # ExpectedReadGot(C, s) THEN Same("harness_read_answer")
       ELSE V("", f.E, X)

VReadRet(e) == IF ~Reading(E) THEN Same("harness_answer_without_read") ELSE V("", StepReadDone(E), X)

\* IUploadable.close: "The upload is finished": not while segments are still to be read or blocks are on their way - unless
\* the upload has failed or is bound to fail
VUClose(e) ==
  LET givenUp == E.res = "failure" \/ E.doomed \/ E.uabort = "early" IN
  IF E.uclosed THEN Same("")                        \* closing again says nothing new
  ELSE IF ~givenUp /\ (E.rdone # NS \/ ~PhaseDone(E)) THEN Same("XE_UploadableClosedAfterLastSegment")
  ELSE V("", [E EXCEPT !.uclosed = TRUE], X)

VUserAbort(e) == V("", StepUserAbort(E, NS), X)

VSuccess(e) ==
  LET f == Forward(E, LastPhase(NS), NS) IN
  IF E.res # "none" THEN Same("XE_OneResult")
  ELSE IF E.doomed THEN Same("XE_SuccessMeetsHappiness")
  ELSE IF E.uabort = "early" THEN Same("XE_AbortHonoured")
  ELSE IF f.why # "" THEN Same("XE_SuccessAfterAllCalls:" \o f.why)
  ELSE IF ~PhaseDone(f.E) THEN Same("XE_SuccessAfterAllCalls")
  ELSE IF ~(f.E.live \subseteq f.E.closed) THEN Same("XE_EndClosedOrAborted:not_closed")
  ELSE IF f.E.live \cap f.E.aborted # {} THEN Same("XE_EndClosedOrAborted:placed_share_aborted")
  ELSE IF ToSet(e.placed) # f.E.live THEN Same("XE_SharesPlaced")
  ELSE IF \E w \in f.E.live : X.blockBytes[w] # EncShareDataSize(C.size, C.k) THEN Same("XE_ShareSize")
  ELSE IF Happiness(f.E.smap) < C.happy THEN Same("XE_SuccessMeetsHappiness")
  ELSE IF ~f.E.uclosed THEN Same("XE_UploadableClosedAfterLastSegment")
  ELSE IF ~(e.cap.k = C.k /\ e.cap.n = C.n /\ e.cap.size = C.size /\ e.cap.si_ok /\ e.cap.ueb_hash_ok /\ e.cap.is_verify_cap)
    THEN Same("XE_VerifyCap")
  ELSE IF e.ueb_data # ExpectedUEB(C, Canon) THEN Same("XE_Content:get_uri_extension_data")
  ELSE V("", StepResult(f.E, "success"), X)

VFailure(e) ==
  IF E.res # "none" THEN Same("XE_OneResult")
  ELSE IF e.cls = "UploadUnhappinessError"
    THEN IF E.doomed THEN V("", StepResult(E, "failure"), X) ELSE Same("XE_FailureJustified")
  ELSE IF e.cls = "UploadAborted"
    THEN IF E.uabort = "early" THEN V("", StepResult(E, "failure"), X) ELSE Same("XE_AbortHonoured")
  ELSE Same("XE_UnexpectedError")

VResult(e) == IF e.kind = "success" THEN VSuccess(e) ELSE VFailure(e)

VQuiescent(e) ==
  IF E.out # {} \/ Reading(E) THEN Same("harness_outstanding_at_end")
  ELSE IF E.res = "none" THEN Same("XE_NoResult")
  ELSE IF ~(E.dropped \subseteq E.aborted) THEN Same("XE_EndClosedOrAborted:lost_writer_not_aborted")
  ELSE IF E.res = "failure" /\ ~(C.writers \subseteq E.aborted) THEN Same("XE_EndClosedOrAborted:not_aborted_after_failure")
  ELSE IF E.res = "success" /\ E.placed \cap E.aborted # {} THEN Same("XE_EndClosedOrAborted:placed_share_aborted")
  ELSE IF ~X.params THEN Same("harness_no_params")
  ELSE Same("")

Verdict(e) ==
  CASE e.ev = "params"     -> VParams(e)
    [] e.ev = "call"       -> VCall(e)
    [] e.ev = "ret"        -> VRet(e)
    [] e.ev = "read"       -> VRead(e)
    [] e.ev = "read_ret"   -> VReadRet(e)
    [] e.ev = "uclose"     -> VUClose(e)
    [] e.ev = "user_abort" -> VUserAbort(e)
    [] e.ev = "result"     -> VResult(e)
    [] e.ev = "quiescent"  -> VQuiescent(e)
    [] OTHER               -> Same("unknown_event")

\* the precondition of the run: the layout handed to set_shareholders is happy and lists every writer's server
PreOK == /\ \A w \in C.writers : w \in DOMAIN C.smap0 /\ C.peer[w] \in C.smap0[w]
         /\ Happiness(C.smap0) >= C.happy
         /\ C.seg % C.k = 0 /\ C.size >= 1

TraceInit ==
  /\ tid \in 1..Len(Traces)
  /\ l = 1
  /\ C = CfgOf(Traces[tid].consts)
  /\ E = EPInit(C)
  /\ X = [blockBytes |-> [w \in WritersOf(Traces[tid].consts) |-> 0], params |-> FALSE, aborts |-> 0, lateFail |-> FALSE]
  /\ bad = "none"

TraceNext ==
  /\ bad = "none"
  /\ l <= Len(Events)
  /\ LET v == IF l = 1 /\ ~PreOK THEN Same("harness_precondition") ELSE Verdict(Events[l])
     IN IF v.c = ""
          THEN /\ E' = v.E /\ X' = v.X /\ l' = l + 1 /\ bad' = "none"
               /\ (l = Len(Events) =>
                     /\ PrintT(<<"VF_ACCEPT", tid, l>>)
                     /\ (v.X.aborts > Cardinality(v.E.aborted) => PrintT(<<"VF_NOTE", tid, l, "a writer was aborted more than once">>)))
          ELSE /\ bad' = v.c /\ UNCHANGED <<E, X, l>>
               /\ PrintT(<<"VF_REJECT", tid, l, v.c>>)
  /\ UNCHANGED <<tid, C>>

TraceSpec == TraceInit /\ [][TraceNext]_tvars
TraceOK == bad = "none"
=============================================================================
