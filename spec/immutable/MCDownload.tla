---------------------------- MODULE MCDownload ----------------------------
(* Model-checking harness of Download.tla: builds the set of adversary configurations from small bounds.
   An adversary configuration fixes, for one behaviour,
     comp     the symbolic content of every component of every share instance
              (genuine | other = consistent with another file / encoding | forged | short = truncated before it),
     srv      the fault mode of every server,  segok  the honesty of the encoder per segment,
     present  which instances exist,  liars / lies / maxTamper  instances whose content changes while the download runs. *)
EXTENDS Download
FSE == INSTANCE FiniteSetsExt

CONSTANTS MaxDamage, DamageVals, MaxFaulty, FaultModes, MaxBadSegs, MaxAbsent, MaxLiars, MaxTamperC

Meta == {"hdr", "ueb", "shh", "bht", "cht"}
Slots == {[i |-> i, c |-> c, seg |-> 0] : i \in Inst, c \in Meta} \cup {[i |-> i, c |-> "blk", seg |-> s] : i \in Inst, s \in Segs}
UpTo(n, S) == UNION {FSE!kSubset(j, S) : j \in 0..n}

CompOf(v) ==       \* v: function from a set of slots to damage values
  [i \in Inst |->
     LET val(c, s) == IF [i |-> i, c |-> c, seg |-> s] \in DOMAIN v THEN v[[i |-> i, c |-> c, seg |-> s]] ELSE "genuine"
     IN [hdr |-> val("hdr", 0), ueb |-> val("ueb", 0), shh |-> val("shh", 0), bht |-> val("bht", 0), cht |-> val("cht", 0),
         blk |-> [s \in Segs |-> val("blk", s)]]]

Comps == {CompOf(v) : v \in UNION {[D -> DamageVals] : D \in UpTo(MaxDamage, Slots)}}
Srvs == {f \in [Servers -> {"ok"} \cup FaultModes] : Cardinality({s \in Servers : f[s] # "ok"}) <= MaxFaulty}
SegOKs == {f \in [Segs -> BOOLEAN] : Cardinality({s \in Segs : ~f[s]}) <= MaxBadSegs}
Lies == {Genuine, [Genuine EXCEPT !.blk = [s \in Segs |-> "forged"]], [Genuine EXCEPT !.ueb = "other"], [Genuine EXCEPT !.hdr = "short"]}

MCAdvs == {[comp |-> c, srv |-> f, segok |-> g, present |-> Inst \ a, liars |-> l, lies |-> Lies, maxTamper |-> MaxTamperC] :
             c \in Comps, f \in Srvs, g \in SegOKs, a \in UpTo(MaxAbsent, Inst), l \in UpTo(MaxLiars, Inst)}

\* instances from a compact description: sequence of <<server, shnum>>
MkInst(pairs) == {[s |-> p[1], n |-> p[2]] : p \in ToSet(pairs)}

(* named placements and read plans for the cfg files (cfg files cannot contain expressions) *)
Order3 == <<"s0", "s1", "s2">>
Order4 == <<"s0", "s1", "s2", "s3">>
Order5 == <<"s0", "s1", "s2", "s3", "s4">>
P_spread3 == MkInst(<< <<"s0", 0>>, <<"s1", 1>>, <<"s2", 2>> >>)                    \* N=3, one share per server
P_clump3  == MkInst(<< <<"s0", 0>>, <<"s0", 1>>, <<"s1", 2>>, <<"s2", 0>> >>)       \* two shares on s0, sh0 twice
P_one3    == MkInst(<< <<"s0", 0>>, <<"s0", 1>>, <<"s0", 2>> >>)                    \* everything on one server of three
P_spread4 == MkInst(<< <<"s0", 0>>, <<"s1", 1>>, <<"s2", 2>>, <<"s3", 3>> >>)       \* N=4 on four servers
P_dups5   == MkInst(<< <<"s0", 0>>, <<"s1", 0>>, <<"s1", 1>>, <<"s2", 2>>, <<"s3", 3>>, <<"s3", 1>> >>)   \* N=4 on 5 servers, s4 empty
R_all1  == {<<0, 0>>}
R_all2  == {<<0, 1>>}
R_any2  == {<<0, 0>>, <<1, 1>>, <<0, 1>>}
R_any3  == {<<0, 0>>, <<1, 1>>, <<2, 2>>, <<0, 2>>, <<1, 2>>}
NoChecksBlk == AllChecks \ {"blk"}
NoChecksSeg == AllChecks \ {"seg"}
NoChecksUeb == AllChecks \ {"ueb"}
=============================================================================
