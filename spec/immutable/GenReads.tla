----------------------------- MODULE GenReads -----------------------------
(* GEN mode for C04: for a few files the Spec enumerates (offset, size) classes around
   the segment boundaries, the 16-byte AES-CTR block boundaries, the end of the file
   and past it, including size=None (-1), each with the length of the slice the read
   must deliver and the number of consumer writes (one per overlapped segment; one
   for a non-empty literal read).  The driver issues them as single reads and draws
   the concurrent scenarios from the same table. *)
EXTENDS DownloadReads, Json, IOUtils, SequencesExt

CONSTANT Tier

Files == IF Tier = "quick"
  THEN << [size |-> 100, k |-> 3, N |-> 5, maxseg |-> 16],      \* 18-byte segments: never aligned with AES blocks
          [size |-> 70,  k |-> 2, N |-> 3, maxseg |-> 7],       \* 8-byte segments, 6-byte tail
          [size |-> 64,  k |-> 1, N |-> 2, maxseg |-> 16],      \* segments = AES blocks, no tail
          [size |-> 57,  k |-> 3, N |-> 4, maxseg |-> 128],     \* one padded segment
          [size |-> 40,  k |-> 3, N |-> 5, maxseg |-> 16],      \* literal
          [size |-> 0,   k |-> 3, N |-> 5, maxseg |-> 16] >>    \* empty literal
  ELSE << [size |-> 100, k |-> 3, N |-> 5, maxseg |-> 16],
          [size |-> 70,  k |-> 2, N |-> 3, maxseg |-> 7],
          [size |-> 64,  k |-> 1, N |-> 2, maxseg |-> 16],
          [size |-> 57,  k |-> 3, N |-> 4, maxseg |-> 128],
          [size |-> 40,  k |-> 3, N |-> 5, maxseg |-> 16],
          [size |-> 0,   k |-> 3, N |-> 5, maxseg |-> 16],
          [size |-> 56,  k |-> 1, N |-> 1, maxseg |-> 1],       \* one byte per segment
          [size |-> 1000, k |-> 7, N |-> 16, maxseg |-> 100],
          [size |-> 55,  k |-> 1, N |-> 1, maxseg |-> 1],       \* largest literal
          [size |-> 200000, k |-> 3, N |-> 10, maxseg |-> 131072],   \* the node's guess (128 KiB) is right
          [size |-> 307200, k |-> 3, N |-> 10, maxseg |-> 262144] >> \* the guess is too small: guessed segnum can be past the end

FSeg(F) == SegSize(F.size, F.k, F.maxseg)
Offs(F) == LET s == IF F.size = 0 THEN 1 ELSE FSeg(F) IN
  {o \in {0, 1, 15, 16, 17, 31, 32, 33, s - 1, s, s + 1, 2 * s - 1, 2 * s, 2 * s + 1, 3 * s,
          F.size - 17, F.size - 16, F.size - s, F.size - 1, F.size, F.size + 1, F.size + 1000} : o >= 0}
Lens(F) == LET s == IF F.size = 0 THEN 1 ELSE FSeg(F) IN
  {z \in {0, 1, 15, 16, 17, s - 1, s, s + 1, 2 * s, 2 * s + 1, F.size - 1, F.size, F.size + 5, Unlimited} : z >= 0 \/ z = Unlimited}

SliceLen(F, off, size) == IF IsLit(F.size) THEN LitSlice(F.size, off, size).hi - LitSlice(F.size, off, size).lo
                                          ELSE ClipSize(F.size, off, size)
\* closed form: one write per overlapped segment
Pieces(F, off, size) ==
  LET n == SliceLen(F, off, size) IN
  IF n = 0 THEN 0 ELSE IF IsLit(F.size) THEN 1
  ELSE ((off + n - 1) \div FSeg(F)) - (off \div FSeg(F)) + 1
\* the same by walking the pieces the way Segmentation does
RECURSIVE Walk(_, _, _)
Walk(F, pos, end) == IF pos >= end THEN 0 ELSE 1 + Walk(F, pos + NextPieceLen(F.size, FSeg(F), pos, end), end)

Cases == UNION {{[f |-> i - 1, off |-> o, size |-> z, len |-> SliceLen(Files[i], o, z), pieces |-> Pieces(Files[i], o, z)] :
                   o \in Offs(Files[i]), z \in Lens(Files[i])} : i \in 1..Len(Files)}

ASSUME ndJsonSerialize(IOEnv.OUT_FILE, <<[files |-> Files]>> \o SetToSeq(Cases))

VARIABLE c
Init == c \in Cases
Next == UNCHANGED c
Spec == Init /\ [][Next]_c
TableOK == LET F == Files[c.f + 1] IN
           /\ c.len >= 0 /\ (c.size # Unlimited => c.len <= c.size) /\ (c.off >= F.size => c.len = 0)
           /\ c.off + c.len <= Max(F.size, c.off)
           /\ (c.size = Unlimited /\ c.off <= F.size => c.off + c.len = F.size)
           /\ (~IsLit(F.size) => c.pieces = Walk(F, c.off, c.off + c.len))
=============================================================================
