---------------------------- MODULE TraceUpload ----------------------------
(* Contract-level trace validation of real immutable uploads (C06).

   A trace (harness/upload_driver.py) is one upload on a SimGrid grid:
     consts : servers, n, k, happy, pre (final shares on each server before the
              upload, listed from the share directories)
     events : the delivered storage calls that matter to the statement
                GetBuckets(srv, ok, res)            reader-visible listing
                Allocate(srv, asked, ok, already, allocated)
                WriteLost(srv, sh)                  a bucket write that was not executed
                Close(srv, sh, ok)   Abort(srv, sh, ok)
              the claim
                Success(placed, found)  |  Failure(cls, mro, where)  |  Hang
              and after quiescence
                Quiescent(disk)  : per server final / incoming / listed / complete shares

   TLC replays the storage calls through UploadSelect's store operators,
   computes the happiness of the claim itself and accepts Success only under
   the guard of the statement; a failure must be an unhappiness error; what
   readers can list is final in the replayed store and complete on disk. *)
EXTENDS UploadSelect, Json, IOUtils, TLCExt

Traces == JsonDeserialize(IOEnv.TRACE_FILE)

VARIABLES tid, l, St, holes, res, bad
tvars == <<tid, l, St, holes, res, bad>>

C == Traces[tid].consts
Events == Traces[tid].events
Ev == Events[l]
Srv == ToSet(C.servers)

PairsOfSeq(q) == {<<q[i][1], q[i][2]>> : i \in 1..Len(q)}     \* q : sequence of <<server name, share number>>

UnhappyClasses == {"UploadUnhappinessError", "NoServersError"}

V(c, s, h, r) == [c |-> c, St |-> s, holes |-> h, res |-> r]
Same(c) == V(c, St, holes, res)

VGetBuckets(e) ==
  IF ~e.ok THEN Same("")
  ELSE IF ToSet(e.res) # FinalOn(St, e.srv) THEN Same("C06_NoPartialVisible_listing_differs_from_final_shares")
  ELSE Same("")

VAllocate(e) ==
  IF ~e.ok THEN Same("")
  ELSE LET already == ToSet(e.already)
           allocated == ToSet(e.allocated)
       IN IF already # AllocAlready(St, e.srv) THEN Same("C06_NoPartialVisible_alreadygot_differs_from_final_shares")
          ELSE IF ~(allocated \subseteq AllocCandidates(St, e.srv, ToSet(e.asked))) THEN Same("store_allocated_existing_share")
          ELSE IF allocated # {} /\ ~AcceptsWrites(C.modes[e.srv]) THEN Same("store_full_or_readonly_server_allocated")
          ELSE V("", ApplyAllocate(St, e.srv, allocated), holes, res)

VWriteLost(e) == V("", St, holes \cup {<<e.srv, e.sh>>}, res)
VClose(e) == IF e.ok THEN V("", ApplyClose(St, e.srv, e.sh), holes, res) ELSE Same("")
VAbort(e) == IF e.ok THEN V("", ApplyAbort(St, e.srv, e.sh), holes, res) ELSE Same("")

\* ground truth from the harness: even if every server that is not removed, not failing on every call and
\* not full / read-only took any share, the threshold could not be met
Capable(s) == s \notin ToSet(C.removed) /\ C.modes[s] # "failing"
ReachAdj == [s \in Srv |-> IF ~Capable(s) THEN {}
                           ELSE IF AcceptsWrites(C.modes[s]) THEN (0..(C.n - 1)) \cup ToSet(C.pre[s])
                           ELSE ToSet(C.pre[s])]
SurelyUnreachable == MaxMatching(ReachAdj) < C.happy

VSuccess(e) ==
  LET placed == PairsOfSeq(e.placed)
      found == PairsOfSeq(e.found)
  IN IF SurelyUnreachable THEN Same("C06_UnreachableButSuccess")
     ELSE IF ~PlacedFinal(St, placed) THEN Same("C06_PlacedFinal")
     ELSE IF ~PlacedComplete(holes, placed) THEN Same("C06_PlacedComplete")
     ELSE IF ~FoundPresent(St, found) THEN Same("C06_FoundPresent")
     ELSE IF HappinessOfPairs(placed \cup found) < C.happy THEN Same("C06_SuccessMeetsHappiness")
     ELSE V("", St, holes, [kind |-> "success", placed |-> placed])

\* C07, last sentence, at the level of a whole upload: on a fault-free grid without earlier shares (every server answers,
\* advertises its space truthfully: writable / room for one share / full) a happy layout exists as soon as `happy`
\* servers can take a share and some server has room for the rest; such an upload must not be declared unhappy
FaultFree == "faultfree" \in DOMAIN C /\ C.faultfree
TakesOne(s) == C.modes[s] \in {"writable", "small_known"}
HappyLayoutExists == /\ Cardinality({s \in Srv : TakesOne(s)}) >= C.happy
                     /\ \E s \in Srv : C.modes[s] = "writable"
VFailure(e) ==
  IF ToSet(e.mro) \cap UnhappyClasses # {} /\ FaultFree /\ HappyLayoutExists THEN Same("C07_UnhappyThoughReachable")
  ELSE IF ToSet(e.mro) \cap UnhappyClasses # {} THEN V("", St, holes, [kind |-> "unhappy", placed |-> {}])
  ELSE IF e.cls = "AssertionError" /\ e.where = "upload.py:set_shareholders"
    THEN \* known benign death (one share number on two trackers); outside the statement: not judged
         V("", St, holes, [kind |-> "died", placed |-> {}])
  ELSE IF SurelyUnreachable THEN Same("C06_ErrorClass")
  ELSE \* the threshold was reachable: the statement does not say how such an upload may fail; recorded, not judged
       V("", St, holes, [kind |-> "died", placed |-> {}])

VHang(e) == IF SurelyUnreachable THEN Same("C06_ErrorClass_no_result")
            ELSE V("", St, holes, [kind |-> "died", placed |-> {}])

VQuiescent(e) ==
  LET D == e.disk
      fin(s) == ToSet(D[s].final)
      listed(s) == ToSet(D[s].listed)
      complete(s) == ToSet(D[s].complete)
      cmain(s) == ToSet(D[s].complete_main)
  IN IF \E s \in Srv : ~(listed(s) \subseteq complete(s)) THEN Same("C06_NoPartialVisible")
     ELSE IF \E s \in Srv : listed(s) # fin(s) THEN Same("C06_NoPartialVisible_listing_differs_from_disk")
     ELSE IF \E s \in Srv : fin(s) # FinalOn(St, s) THEN Same("store_disk_differs_from_replayed_store")
     ELSE IF res.kind = "success" /\ \E p \in res.placed : p[2] \notin cmain(p[1]) THEN Same("C06_PlacedComplete_on_disk")
     ELSE Same("")

Verdict(e) ==
  CASE e.ev = "GetBuckets" -> VGetBuckets(e)
    [] e.ev = "Allocate"   -> VAllocate(e)
    [] e.ev = "WriteLost"  -> VWriteLost(e)
    [] e.ev = "Close"      -> VClose(e)
    [] e.ev = "Abort"      -> VAbort(e)
    [] e.ev = "Success"    -> VSuccess(e)
    [] e.ev = "Failure"    -> VFailure(e)
    [] e.ev = "Hang"       -> VHang(e)
    [] e.ev = "Quiescent"  -> VQuiescent(e)
    [] OTHER               -> Same("unknown_event")

TraceInit ==
  /\ tid \in 1..Len(Traces)
  /\ l = 1
  /\ St = [s \in ToSet(Traces[tid].consts.servers) |-> [fin |-> ToSet(Traces[tid].consts.pre[s]), inc |-> {}]]
  /\ holes = {}
  /\ res = [kind |-> "none", placed |-> {}]
  /\ bad = "none"

TraceNext ==
  /\ bad = "none"
  /\ l <= Len(Events)
  /\ LET v == Verdict(Ev)
     IN IF v.c = ""
          THEN /\ St' = v.St /\ holes' = v.holes /\ res' = v.res /\ l' = l + 1 /\ bad' = "none"
               /\ (l = Len(Events) => PrintT(<<"VF_ACCEPT", tid, l>>))
          ELSE /\ bad' = v.c /\ UNCHANGED <<St, holes, res, l>>
               /\ PrintT(<<"VF_REJECT", tid, l, v.c>>)
  /\ UNCHANGED tid

TraceSpec == TraceInit /\ [][TraceNext]_tvars
TraceOK == bad = "none"
\* at every step of a real execution: whatever is final in the replayed store has no lost write
C06_NoPartialVisible_everywhere == NoPartialVisible(St, holes)
=============================================================================
