------------------------- MODULE TraceWritePipeline -------------------------
(* Trace validation of the real WriteBucketProxy / WriteBucketProxy_v2 / ReadBucketProxy
   (harness/writepipeline_driver.py) against WritePipeline.tla.

   kind "write": one share pushed through one proxy by a scripted client; the events are the client's
   calls and their returns, every remote call as it leaves the proxy (Send), every execution / answer
   chosen by the harness (Deliver), every firing of a Deferred the client holds (Fired), and the disk
   and the reader's view at the end (End).  Only the contract is judged (remote calls, Deferreds,
   the share), so that a re-arrangement of the buffering inside the proxy is not flagged:

     Send write   WP_WriteAfterClose, WP_NoEmptyWrite, WP_ExactlyOnce (a byte range sent again),
                  WP_NoHoles, WP_BytesNotHandedOver, WP_BytesAsPut, WP_NoSmallWrites
     Send close   WP_CloseUnrequested, WP_CloseOnce, WP_CloseBeforeAllBytesSent, WP_CloseAfterFinalWrite
     Return       WP_InOrderPutRefused[_eager] (deferred to the end of the trace), WP_CloseRefused[_eager]
     Fired        WP_BadPutAccepted, WP_NoEarlyFire, WP_FailureSwallowed, WP_NoSpuriousFailure,
                  WP_CloseSuccessWithoutClose
     between activities  WP_DeferredNeverFires (a pending Deferred with no call in flight),
                  WP_BufferBounded (a whole batch held back although nothing is pending)
     Deliver      WP_ServerAnswer (the real BucketWriter against the server operators)
     End          WP_Finalized, WP_IncomingLeft, WP_ServerImage, WP_SuccessMeansFinal,
                  WP_ClosedShareComplete, WP_ReadBack_<getter>, spec_roundtrip_<field>
   kind "read": a share image (possibly damaged) and the answer of every ReadBucketProxy getter:
                  WP_Read_<getter>_status, WP_Read_<getter>_data                                     *)
EXTENDS WritePipeline, Json, IOUtils, TLCExt

Traces == JsonDeserialize(IOEnv.TRACE_FILE)

\* rest = the events not yet judged (kept in the state: TLC re-reads the trace file whenever Traces is referenced)
VARIABLES tid, l, S, bad, rest
tvars == <<tid, l, S, bad, rest>>

Ev == Head(rest)
V(c, s) == [c |-> c, s |-> s]

ParamsOf(c) == [version |-> c.version, datasize |-> c.datasize, blocksize |-> c.blocksize, numsegs |-> c.numsegs,
                N |-> c.N, uebsize |-> c.uebsize, batch |-> c.batch]

InitState(c) ==
  IF c.kind = "read" THEN [kind |-> "read", p |-> ParamsOf(c), img |-> c.image]
  ELSE [kind |-> "write", p |-> ParamsOf(c), nsh |-> c.nsh, waiting |-> (c.discipline = "waiting"),
        \* the layout numbers of this share, computed once (TLC interprets Layout.tla's operators slowly)
        lay |-> LET p == ParamsOf(c) IN
                [alloc |-> PAlloc(p), nf |-> NumFields(p), foff |-> [i \in 1..NumFields(p) |-> FieldOff(p, i)],
                 flen |-> [i \in 1..NumFields(p) |-> FieldLen(p, i)], tile |-> FieldsTile(p)],
        nxt |-> 1, stream |-> <<>>, sent |-> 0,
        calls |-> <<>>,          \* [meth, off, data, st, okind, oid]  index = cid
        puts |-> <<>>,           \* [st, acc, len0]  index = put id; st: calling / pending / ok / err / refused
        payload |-> [crypttext |-> <<>>, blockhashes |-> <<>>, sharehashes |-> <<>>, ueb |-> <<>>, blocks |-> <<>>],
        cur |-> "none",          \* client call in progress: none / put / close / abort
        failed |-> FALSE,        \* the client saw an errback or an exception
        cl |-> "no",             \* close(): no / calling / pending / ok / err / refused
        clacc |-> FALSE, closeSent |-> FALSE,
        srv |-> Srv0, defer |-> "", deferl |-> 0]

(* ---- helpers over the state ---------------------------------------------------------------------*)
CallIds(T) == 1..Len(T.calls)
OwnedByPut(T, i) == {c \in CallIds(T) : T.calls[c].okind = "put" /\ T.calls[c].oid = i}
OwnedByClose(T) == {c \in CallIds(T) : T.calls[c].okind = "close"}
AnyErr(T) == \E c \in CallIds(T) : T.calls[c].st = "err"
PendingPuts(T) == {i \in 1..Len(T.puts) : T.puts[i].st = "pending"}
Alloc(T) == T.lay.alloc

\* checked whenever a new activity starts: the callbacks of the previous one are over
Between(T) ==
  IF \E i \in PendingPuts(T) : ~\E c \in OwnedByPut(T, i) : T.calls[c].st = "out" THEN "WP_DeferredNeverFires"
  ELSE IF T.cl = "pending" /\ ~\E c \in OwnedByClose(T) : T.calls[c].st = "out" THEN "WP_DeferredNeverFires"
  ELSE IF PendingPuts(T) = {} /\ ~T.failed /\ T.cl = "no" /\ Len(T.stream) - T.sent >= T.p.batch THEN "WP_BufferBounded"
  ELSE ""

Defer(T, clause) == IF T.defer = "" THEN [T EXCEPT !.defer = clause, !.deferl = l] ELSE T

(* ---- client calls ---------------------------------------------------------------------------------*)
PutOf(e) == [field |-> e.field, seg |-> e.seg, data |-> e.data, pairs |-> e.pairs]

VPut(e) ==
  LET put == PutOf(e)
      acc == S.cl = "no" /\ PutOK(S.p, S.nxt, put)
      pl == IF ~acc THEN S.payload
            ELSE IF e.field = "block" THEN [S.payload EXCEPT !.blocks = Append(@, e.data)]
            ELSE IF e.field = "sharehashes" THEN [S.payload EXCEPT !.sharehashes = e.pairs]
            ELSE IF e.field = "header" THEN S.payload
            ELSE [S.payload EXCEPT ![e.field] = e.data]
  IN IF Between(S) # "" THEN V(Between(S), S)
     ELSE IF S.cur # "none" \/ e.id # Len(S.puts) + 1 THEN V("harness_put_sequence", S)
     ELSE IF S.nsh # NumShareHashes(S.p.N) THEN V("harness_num_share_hashes", S)
     ELSE IF ~S.lay.tile THEN V("spec_fields_do_not_tile", S)
     ELSE IF acc /\ S.lay.foff[S.nxt] # Len(S.stream) THEN V("spec_layout_gap", S)
     ELSE IF acc /\ Len(Wire(S.p, put)) # S.lay.flen[S.nxt] THEN V("spec_field_length", S)
     ELSE V("", [S EXCEPT !.cur = "put",
                          !.puts = Append(@, [st |-> "calling", acc |-> acc, len0 |-> Len(S.stream)]),
                          !.stream = IF acc THEN @ \o Wire(S.p, put) ELSE @,
                          !.nxt = IF acc THEN @ + 1 ELSE @,
                          !.payload = pl])

VReturn(e) ==
  LET i == e.id
      pr == S.puts[i]
      eager == \E j \in PendingPuts(S) : j # i
  IN IF S.cur # "put" \/ i # Len(S.puts) THEN V("harness_return", S)
     ELSE IF pr.acc /\ e.sync # "ok" THEN
          \* a call made in the documented order was refused [L-cls]: reported at the end, the rest is still judged
          V("", Defer([S EXCEPT !.cur = "none", !.failed = TRUE, !.puts[i].st = "refused",
                                !.stream = SubSeq(@, 1, pr.len0), !.nxt = @ - 1],
                      IF eager THEN "WP_InOrderPutRefused_eager" ELSE "WP_InOrderPutRefused"))
     ELSE IF e.sync # "ok" THEN V("", [S EXCEPT !.cur = "none", !.failed = TRUE, !.puts[i].st = "refused"])
     ELSE V("", [S EXCEPT !.cur = "none", !.puts[i].st = "pending"])

VClose(e) ==
  IF Between(S) # "" THEN V(Between(S), S)
  ELSE IF S.cur # "none" THEN V("harness_close_sequence", S)
  ELSE V("", [S EXCEPT !.cur = "close", !.cl = "calling",
                       !.clacc = (S.cl = "no" /\ Len(S.stream) = Alloc(S) /\ S.nxt = S.lay.nf + 1)])

VCloseReturn(e) ==
  IF S.cur # "close" THEN V("harness_return", S)
  ELSE IF S.clacc /\ e.sync # "ok" THEN
       V("", Defer([S EXCEPT !.cur = "none", !.failed = TRUE, !.cl = "refused"],
                   IF PendingPuts(S) # {} THEN "WP_CloseRefused_eager" ELSE "WP_CloseRefused"))
  ELSE IF e.sync # "ok" THEN
       (IF e.sync # "AssertionError" /\ PrintT(<<"VF_NOTE", tid, l, "close_refusal_raises_" \o e.sync>>)
        THEN V("", [S EXCEPT !.cur = "none", !.failed = TRUE, !.cl = "refused"])
        ELSE V("", [S EXCEPT !.cur = "none", !.failed = TRUE, !.cl = "refused"]))
  ELSE V("", [S EXCEPT !.cur = "none", !.cl = "pending"])

VAbort(e) == IF Between(S) # "" THEN V(Between(S), S)
             ELSE IF S.cur # "none" THEN V("harness_abort_sequence", S)
             ELSE V("", [S EXCEPT !.cur = "abort"])
VAbortReturn(e) == IF e.sync # "ok" THEN V("WP_AbortRaises", S) ELSE V("", [S EXCEPT !.cur = "none"])

(* ---- remote calls leaving the proxy ---------------------------------------------------------------*)
OwnerKind(e) == IF e.ckind = "deliver" THEN S.calls[e.cid0].okind ELSE e.ckind
OwnerId(e) == IF e.ckind = "deliver" THEN S.calls[e.cid0].oid
              ELSE IF e.ckind = "put" THEN Len(S.puts) ELSE 0

VSend(e) ==
  LET ok == OwnerKind(e)
      oi == OwnerId(e)
      unsent == Len(S.stream) - S.sent
      T == [S EXCEPT !.calls = Append(@, [meth |-> e.meth, off |-> e.off, data |-> e.data, st |-> "out", okind |-> ok, oid |-> oi]),
                     !.sent = IF e.meth = "write" THEN @ + Len(e.data) ELSE @,
                     !.closeSent = (@ \/ e.meth = "close")]
  IN IF e.cid # Len(S.calls) + 1 THEN V("harness_call_numbering", S)
     ELSE IF e.ckind = "deliver" /\ ~(e.cid0 \in CallIds(S)) THEN V("harness_context", S)
     ELSE IF e.ckind \in {"put", "close", "abort"} /\ S.cur # e.ckind THEN V("harness_context", S)
     ELSE IF e.ckind = "none" THEN V("WP_CallOutOfTheBlue", S)
     ELSE IF e.meth = "write" THEN
          (IF S.closeSent THEN V("WP_WriteAfterClose", S)
           ELSE IF Len(e.data) = 0 THEN V("WP_NoEmptyWrite", S)
           ELSE IF e.off < S.sent THEN V("WP_ExactlyOnce", S)
           ELSE IF e.off > S.sent THEN V("WP_NoHoles", S)
           ELSE IF e.off + Len(e.data) > Len(S.stream) THEN V("WP_BytesNotHandedOver", S)
           ELSE IF e.data # SubSeq(S.stream, e.off + 1, e.off + Len(e.data)) THEN V("WP_BytesAsPut", S)
           ELSE IF ok = "abort" THEN V("WP_AbortWrites", S)
           ELSE IF ok # "close" /\ unsent < S.p.batch THEN V("WP_NoSmallWrites", S)
           ELSE V("", T))
     ELSE IF e.meth = "close" THEN
          (IF ok # "close" THEN V("WP_CloseUnrequested", S)
           ELSE IF S.closeSent THEN V("WP_CloseOnce", S)
           ELSE IF S.sent # Alloc(S) THEN V("WP_CloseBeforeAllBytesSent", S)
           ELSE IF \E c \in OwnedByClose(S) : S.calls[c].st # "ok" THEN V("WP_CloseAfterFinalWrite", S)
           ELSE V("", T))
     ELSE IF e.meth = "abort" THEN (IF ok # "abort" THEN V("WP_AbortUnrequested", S) ELSE V("", T))
     ELSE V("WP_UnknownRemoteCall", S)

(* ---- the harness executes / fails a call and answers it --------------------------------------------*)
VDeliver(e) ==
  LET c == e.cid
      call == S.calls[c]
      want == IF e.fault # "none" THEN "err"
              ELSE IF call.meth = "write" THEN SrvWriteRes(S.srv, call.off, call.data, Alloc(S))
              ELSE IF call.meth = "close" THEN SrvCloseRes(S.srv)
              ELSE "ok"
      srv1 == IF e.fault = "disconnect" THEN SrvAbort(S.srv)
              ELSE IF e.fault # "none" \/ want = "err" THEN S.srv
              ELSE IF call.meth = "write" THEN SrvWrite(S.srv, call.off, call.data)
              ELSE IF call.meth = "close" THEN SrvClose(S.srv)
              ELSE SrvAbort(S.srv)
  IN IF Between(S) # "" THEN V(Between(S), S)
     ELSE IF ~(c \in CallIds(S)) \/ S.cur # "none" THEN V("harness_deliver", S)
     ELSE IF call.st # "out" THEN V("harness_deliver_twice", S)
     ELSE IF e.res # want THEN V("WP_ServerAnswer", S)
     ELSE V("", [S EXCEPT !.calls[c].st = e.res, !.srv = srv1])

(* ---- a Deferred held by the client fires ------------------------------------------------------------*)
VFired(e) ==
  IF e.id = 0 THEN
     (IF S.cl # "pending" THEN V("harness_fired", S)
      ELSE IF e.res = "ok" THEN
           (IF ~S.clacc THEN V("WP_CloseIncompleteAccepted", S)
            ELSE IF ~\E c \in OwnedByClose(S) : S.calls[c].meth = "close" /\ S.calls[c].st = "ok" THEN V("WP_CloseSuccessWithoutClose", S)
            ELSE IF \E c \in OwnedByClose(S) : S.calls[c].st # "ok" THEN V("WP_FailureSwallowed", S)
            ELSE V("", [S EXCEPT !.cl = "ok"]))
      ELSE IF S.clacc /\ ~AnyErr(S) THEN V("WP_NoSpuriousFailure", S)
      ELSE V("", [S EXCEPT !.cl = "err", !.failed = TRUE]))
  ELSE
     LET i == e.id IN
     IF ~(i \in 1..Len(S.puts)) \/ S.puts[i].st # "pending" THEN V("harness_fired", S)
     ELSE IF e.res = "ok" THEN
          (IF ~S.puts[i].acc THEN V("WP_BadPutAccepted", S)
           ELSE IF \E c \in OwnedByPut(S, i) : S.calls[c].st = "out" THEN V("WP_NoEarlyFire", S)
           ELSE IF \E c \in OwnedByPut(S, i) : S.calls[c].st = "err" THEN V("WP_FailureSwallowed", S)
           ELSE V("", [S EXCEPT !.puts[i].st = "ok"]))
     ELSE IF S.puts[i].acc /\ ~AnyErr(S) THEN V("WP_NoSpuriousFailure", S)
     ELSE V("", [S EXCEPT !.puts[i].st = "err", !.failed = TRUE])

(* ---- the reader's answers against the reader operators ---------------------------------------------*)
RECURSIVE UnpackPairs(_)
UnpackPairs(d) == IF Len(d) < 2 + HashSize THEN <<>>
                  ELSE <<[n |-> UnBE(SubSeq(d, 1, 2)), h |-> SubSeq(d, 3, 2 + HashSize)]>> \o UnpackPairs(SubSeq(d, 3 + HashSize, Len(d)))
\* "" = agrees; the answer of a getter whose header fields do not fit TLC's integers is not judged
GetterClause(want, res, pairs, name) ==
  IF want.st = "undecodable" THEN ""
  ELSE IF res.st # want.st THEN name \o "_status"
  ELSE IF want.st # "ok" THEN ""
  ELSE IF pairs /\ res.pairs # UnpackPairs(want.data) THEN name \o "_data"
  ELSE IF ~pairs /\ res.data # want.data THEN name \o "_data"
  ELSE ""

ReadClause(img, r, prefix) ==
  LET blk(b) == GetterClause(RGetBlock(img, r.blocks[b].num, r.blocks[b].blocksize, r.blocks[b].size), r.blocks[b].res, FALSE, prefix \o "block")
      bad1 == {b \in 1..Len(r.blocks) : blk(b) # ""}
      c2 == GetterClause(RGetCrypttextHashes(img), r.crypttext, FALSE, prefix \o "crypttext")
      c3 == GetterClause(RGetBlockHashes(img), r.blockhashes, FALSE, prefix \o "blockhashes")
      c4 == GetterClause(RGetShareHashes(img), r.sharehashes, TRUE, prefix \o "sharehashes")
      c5 == GetterClause(RGetUEB(img), r.ueb, FALSE, prefix \o "ueb")
  IN IF bad1 # {} THEN blk(CHOOSE x \in bad1 : TRUE)
     ELSE IF c2 # "" THEN c2 ELSE IF c3 # "" THEN c3 ELSE IF c4 # "" THEN c4 ELSE c5

\* Spec-level round trip: the reader operators applied to the put stream give back what was handed to put_*
RoundTrip(T) ==
  LET img == T.stream
      p == T.p
  IN IF \E s \in 1..p.numsegs : RGetBlock(img, s - 1, p.blocksize, BlockLen(p, s - 1)) # Ans("ok", T.payload.blocks[s]) THEN "spec_roundtrip_block"
     ELSE IF RGetCrypttextHashes(img) # Ans("ok", T.payload.crypttext) THEN "spec_roundtrip_crypttext"
     ELSE IF RGetBlockHashes(img) # Ans("ok", T.payload.blockhashes) THEN "spec_roundtrip_blockhashes"
     ELSE IF RGetShareHashes(img).st # "ok" \/ UnpackPairs(RGetShareHashes(img).data) # T.payload.sharehashes THEN "spec_roundtrip_sharehashes"
     ELSE IF RGetUEB(img) # Ans("ok", T.payload.ueb) THEN "spec_roundtrip_ueb"
     ELSE IF ROffsets(img) # POff(p) THEN "spec_roundtrip_offsets"
     ELSE ""

Padded(img, n) == IF Len(img) >= n THEN img ELSE img \o Zeros(n - Len(img))

VEnd(e) ==
  LET complete == S.cl = "ok" /\ (S.waiting \/ ~AnyErr(S)) IN
  IF Between(S) # "" THEN V(Between(S), S)
  ELSE IF \E c \in CallIds(S) : S.calls[c].st = "out" THEN V("harness_not_drained", S)
  ELSE IF e.final # (S.srv.st = "final") THEN V("WP_Finalized", S)
  ELSE IF e.incoming # (S.srv.st = "open") THEN V("WP_IncomingLeft", S)
  ELSE IF S.cl = "ok" /\ S.srv.st # "final" THEN V("WP_SuccessMeansFinal", S)
  ELSE IF e.final /\ e.share # Padded(S.srv.img, Alloc(S)) THEN V("WP_ServerImage", S)
  ELSE IF complete /\ ~(Len(S.stream) = Alloc(S) /\ SrvComplete(S.srv, Alloc(S)) /\ S.srv.img = S.stream) THEN V("WP_ClosedShareComplete", S)
  ELSE LET rt == IF complete THEN RoundTrip(S) ELSE ""
            rb == IF e.final THEN ReadClause(e.share, e.read, "WP_ReadBack_") ELSE ""
       IN IF rt # "" THEN V(rt, S) ELSE V(rb, S)

VGet(e) ==
  LET img == S.img
      c == IF e.what = "block" THEN GetterClause(RGetBlock(img, e.num, e.blocksize, e.size), e.res, FALSE, "WP_Read_block")
           ELSE IF e.what = "crypttext" THEN GetterClause(RGetCrypttextHashes(img), e.res, FALSE, "WP_Read_crypttext")
           ELSE IF e.what = "blockhashes" THEN GetterClause(RGetBlockHashes(img), e.res, FALSE, "WP_Read_blockhashes")
           ELSE IF e.what = "sharehashes" THEN GetterClause(RGetShareHashes(img), e.res, TRUE, "WP_Read_sharehashes")
           ELSE GetterClause(RGetUEB(img), e.res, FALSE, "WP_Read_ueb")
  IN V(c, S)

Verdict(e) ==
  CASE e.ev = "Put" -> VPut(e)
    [] e.ev = "Return" -> VReturn(e)
    [] e.ev = "Close" -> VClose(e)
    [] e.ev = "CloseReturn" -> VCloseReturn(e)
    [] e.ev = "Abort" -> VAbort(e)
    [] e.ev = "AbortReturn" -> VAbortReturn(e)
    [] e.ev = "Send" -> VSend(e)
    [] e.ev = "Deliver" -> VDeliver(e)
    [] e.ev = "Fired" -> VFired(e)
    [] e.ev = "End" -> VEnd(e)
    [] e.ev = "Get" -> VGet(e)
    [] OTHER -> V("unknown_event", S)

TraceInit ==
  /\ tid \in 1..Len(Traces)
  /\ l = 1
  /\ LET tr == Traces[tid] IN S = InitState(tr.consts) /\ rest = tr.events
  /\ bad = "none"

TraceNext ==
  /\ bad = "none"
  /\ rest # <<>>
  /\ LET v == Verdict(Ev)
         last == Len(rest) = 1
         \* a deferred clause (a refusal that the client survived) is reported when the trace has been judged to its end
         c == IF v.c # "" THEN v.c
              ELSE IF last /\ v.s.kind = "write" /\ v.s.defer # "" THEN v.s.defer
              ELSE ""
         at == IF v.c = "" /\ c # "" THEN v.s.deferl ELSE l
     IN IF c = ""
          THEN /\ S' = v.s /\ l' = l + 1 /\ bad' = "none" /\ rest' = Tail(rest)
               /\ (last => PrintT(<<"VF_ACCEPT", tid, l>>))
          ELSE /\ bad' = c /\ UNCHANGED <<S, l, rest>>
               /\ PrintT(<<"VF_REJECT", tid, at, c>>)
  /\ UNCHANGED tid

TraceSpec == TraceInit /\ [][TraceNext]_tvars
TraceOK == bad = "none"
=============================================================================
