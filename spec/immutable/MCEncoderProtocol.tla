------------------------- MODULE MCEncoderProtocol -------------------------
(* Design model of one run of the upload encoder towards its writers: the
   encoder issues the call of the current phase to every writer it still talks
   to (Call), each call is answered or fails at any later moment and in any
   order (RetOk / RetFail - a failure at ANY call of ANY writer), a writer whose
   call failed is aborted and dropped and the happiness of the remaining
   servermap decides whether the upload goes on (_remove_shareholder); the
   encoder moves to the next phase when every call of the phase is answered
   (Advance: asking the uploadable for the next segment - answered later,
   ReadDone -, finishing the hashes, ...), gives up
   when a loss made the upload unhappy (Unhappy) or when Encoder.abort() was
   called before the last segment was read (Aborted), and succeeds after the
   last close (Succeed).  Answers may still arrive after the result.

   The state record E and its steps are EncoderProtocol's; the properties
   below are stated over independent history variables:
     hist[w]     every call made on writer w, in order
     failed      writers one of whose calls failed
     failLen[w]  Len(hist[w]) at the moment the failure was delivered
     inflight[w] phase of the unanswered call of w (0 = none)
     closedOk    writers whose close() was answered positively
     lateAbort   Encoder.abort() arrived when a segment was still to be read
   Deviations (switches, never intended behaviour) make the invariants
   non-vacuous: the extra runs the model with each and expects TLC to name an
   invariant. *)
EXTENDS EncoderProtocol

CONSTANTS ConfigNames,  \* which of the configurations below are explored (one TLC run covers them all)
          Deviations

PeerDistinct == [w \in 0..2 |-> CASE w = 0 -> "A" [] w = 1 -> "B" [] OTHER -> "C"]
PeerShared   == [w \in 0..2 |-> CASE w = 0 -> "A" [] w = 1 -> "A" [] OTHER -> "B"]
SmapDistinct == [w \in 0..2 |-> {PeerDistinct[w]}]
SmapShared   == [w \in 0..2 |-> {PeerShared[w]}]
\* share 2 is also held by a server that has no writer (found by the uploader's survey)
SmapExisting == [w \in 0..2 |-> IF w = 2 THEN {"C", "D"} ELSE {PeerDistinct[w]}]
\* shares 0 and 1 already sit on servers D and E: the upload stays happy (H = 2) whatever happens to the writers
SmapAllExisting == [w \in 0..2 |-> IF w = 2 THEN {"C"} ELSE {PeerDistinct[w], IF w = 0 THEN "D" ELSE "E"}]

\* n shares, k needed, nsegs segments of 2k bytes (the file is one byte short: the tail is padded), writers, their
\* servers, the servermap, the happiness threshold, whether Encoder.abort() may be called
Mk(n, k, nsegs, writers, peer, smap, happy, uabort) ==
  [size |-> nsegs * 2 * k - 1, k |-> k, n |-> n, seg |-> 2 * k, happy |-> happy,
   writers |-> writers, peer |-> [w \in writers |-> peer[w]], smap0 |-> smap, uabort |-> uabort, nsegs |-> nsegs]
W3 == {0, 1, 2}
ConfigOf(nm) ==
  CASE nm = "distinct_h2_abort"     -> Mk(3, 2, 2, W3, PeerDistinct, SmapDistinct, 2, TRUE)
    [] nm = "distinct_h2"           -> Mk(3, 2, 2, W3, PeerDistinct, SmapDistinct, 2, FALSE)
    [] nm = "distinct_h3_abort"     -> Mk(3, 2, 2, W3, PeerDistinct, SmapDistinct, 3, TRUE)
    [] nm = "distinct_h1"           -> Mk(3, 2, 2, W3, PeerDistinct, SmapDistinct, 1, FALSE)
    [] nm = "shared_h2"             -> Mk(3, 2, 2, W3, PeerShared, SmapShared, 2, FALSE)
    [] nm = "existing_h3"           -> Mk(3, 2, 2, W3, PeerDistinct, SmapExisting, 3, FALSE)
    [] nm = "all_existing_h2_abort" -> Mk(3, 2, 2, W3, PeerDistinct, SmapAllExisting, 2, TRUE)
    [] nm = "three_segments_h2"     -> Mk(3, 2, 3, W3, PeerDistinct, SmapDistinct, 2, FALSE)
    [] nm = "k1_one_segment_h2_abort" -> Mk(3, 1, 1, W3, PeerDistinct, SmapDistinct, 2, TRUE)
    [] nm = "two_writers_existing_h2_abort" -> Mk(3, 2, 2, {0, 1}, PeerDistinct, SmapExisting, 2, TRUE)
Configs == {ConfigOf(nm) : nm \in ConfigNames}
Writers == W3                      \* index set of the history variables (a configuration may use fewer)
Dev(d) == d \in Deviations

ASSUME \A c \in Configs :
  /\ NumSegs(c) = c.nsegs
  /\ c.writers \subseteq 0..(c.n - 1) /\ c.writers \subseteq Writers /\ \A w \in c.writers : c.peer[w] \in c.smap0[w]
  /\ Happiness(c.smap0) >= c.happy                 \* the uploader hands over a happy layout
  /\ ContentLemmas(c)
  /\ LayoutLemmas(c.size, c.k, c.n, c.seg, 1)

VARIABLES Cfg,           \* the configuration of this behaviour (never changes)
          E, hist, failed, failLen, inflight, closedOk, lateAbort
vars == <<Cfg, E, hist, failed, failLen, inflight, closedOk, lateAbort>>
NS == Cfg.nsegs
Happy == Cfg.happy

Init ==
  /\ Cfg \in Configs
  /\ E = EPInit(Cfg)
  /\ hist = [w \in Writers |-> <<>>]
  /\ failed = {} /\ failLen = [w \in Writers |-> 0]
  /\ inflight = [w \in Writers |-> 0]
  /\ closedOk = {} /\ lateAbort = FALSE

Start ==
  /\ E.ph = 0
  /\ E' = StepStart(E)
  /\ UNCHANGED <<Cfg, hist, failed, failLen, inflight, closedOk, lateAbort>>

\* the encoder hands the call of the current phase to one more writer
Call(w) ==
  /\ E.res = "none" /\ E.ph >= 1 /\ w \in E.live \ E.called /\ ~Reading(E)
  /\ E' = StepCall(E, w)
  /\ hist' = [hist EXCEPT ![w] = Append(@, CallOfPhase(E.ph, NS))]
  /\ inflight' = [inflight EXCEPT ![w] = E.ph]
  /\ UNCHANGED <<Cfg, failed, failLen, closedOk, lateAbort>>

RetOk(w) ==
  /\ w \in E.out
  /\ E' = StepRetOk(E, w, inflight[w] = PClose(NS))
  /\ closedOk' = IF inflight[w] = PClose(NS) THEN closedOk \cup {w} ELSE closedOk
  /\ inflight' = [inflight EXCEPT ![w] = 0]
  /\ UNCHANGED <<Cfg, hist, failed, failLen, lateAbort>>

\* _remove_shareholder: abort the writer, forget it, update the servermap, decide
RetFail(w) ==
  /\ w \in E.out
  /\ LET E1 == StepRetFail(E, Cfg, w)
         E2 == IF Dev("servermap_not_updated") THEN [E1 EXCEPT !.smap = E.smap, !.doomed = E.doomed] ELSE E1
     IN E' = IF Dev("dropped_not_aborted") THEN E2 ELSE StepAbortCall(E2, w)
  /\ hist' = IF Dev("dropped_not_aborted") THEN hist ELSE [hist EXCEPT ![w] = Append(@, AbortCall)]
  /\ failed' = failed \cup {w}
  /\ failLen' = IF w \in failed THEN failLen ELSE [failLen EXCEPT ![w] = Len(hist[w])]
  /\ inflight' = [inflight EXCEPT ![w] = 0]
  /\ UNCHANGED <<Cfg, closedOk, lateAbort>>

\* next phase: read the next segment / finish the hashes / ...
Advance ==
  /\ E.ph >= 1 /\ E.ph < LastPhase(NS)
  /\ IF Dev("next_phase_early")
       THEN E.res = "none" /\ E.live \subseteq E.called /\ ~E.doomed /\ ~(IsSegPhase(E.ph + 1, NS) /\ E.uabort = "early")
       ELSE AdvanceBlockedBy(E, NS) = ""
  /\ E' = [StepAdvance(E, NS) EXCEPT !.uclosed = (E.ph + 1 >= PCth(NS))]
  /\ UNCHANGED <<Cfg, hist, failed, failLen, inflight, closedOk, lateAbort>>

\* err(): abort every writer that is still there, fail
GiveUp(kind) ==
  /\ E' = [StepResult(E, kind) EXCEPT !.aborted = IF Dev("failure_without_abort") THEN @ ELSE @ \cup E.live]
  /\ hist' = [w \in Writers |-> IF w \in E.live /\ ~Dev("failure_without_abort") THEN Append(hist[w], AbortCall) ELSE hist[w]]
  /\ UNCHANGED <<Cfg, failed, failLen, inflight, closedOk, lateAbort>>

Unhappy == E.res = "none" /\ E.doomed /\ GiveUp("unhappy")

\* read_encrypted is answered; _gather_data looks at the abort flag once more
ReadDone ==
  /\ Reading(E)
  /\ IF E.res = "none" /\ E.uabort = "early"
       THEN /\ E' = [StepResult(StepReadDone(E), "aborted") EXCEPT !.aborted = IF Dev("failure_without_abort") THEN @ ELSE @ \cup E.live]
            /\ hist' = [w \in Writers |-> IF w \in E.live /\ ~Dev("failure_without_abort") THEN Append(hist[w], AbortCall) ELSE hist[w]]
       ELSE E' = StepReadDone(E) /\ UNCHANGED hist
  /\ UNCHANGED <<Cfg, failed, failLen, inflight, closedOk, lateAbort>>
Aborted ==
  /\ E.res = "none" /\ E.ph >= 1 /\ E.uabort = "early" /\ IsSegPhase(E.ph + 1, NS) /\ PhaseDone(E) /\ ~E.doomed
  /\ GiveUp("aborted")

Succeed ==
  /\ E.res = "none" /\ E.ph = LastPhase(NS) /\ PhaseDone(E)
  /\ IF Dev("success_when_unhappy") THEN TRUE ELSE ~E.doomed
  /\ E' = StepResult(E, "success")
  /\ UNCHANGED <<Cfg, hist, failed, failLen, inflight, closedOk, lateAbort>>

UserAbort ==
  /\ Cfg.uabort /\ E.res = "none" /\ E.ph >= 1 /\ E.uabort = "no"
  /\ E' = StepUserAbort(E, NS)
  /\ lateAbort' = (E.rdone >= NS)
  /\ UNCHANGED <<Cfg, hist, failed, failLen, inflight, closedOk>>

Finished == E.res # "none" /\ E.out = {} /\ ~Reading(E)
Done == Finished /\ UNCHANGED vars

Next == Start \/ (\E w \in Writers : Call(w) \/ RetOk(w) \/ RetFail(w)) \/ Advance \/ ReadDone \/ Unhappy \/ Aborted \/ Succeed
        \/ UserAbort \/ Done
Spec == Init /\ [][Next]_vars

(* ---- the properties --------------------------------------------------------------------- *)
NonAbort(h) == SelectSeq(h, LAMBDA x : x.m # "abort")
IsPrefix(a, b) == Len(a) <= Len(b) /\ \A i \in 1..Len(a) : a[i] = b[i]
AbortedW(w) == \E i \in 1..Len(hist[w]) : hist[w][i].m = "abort"
PhaseOfCall(x) == PhaseOf(x.m, x.seg, NS)
\* the servermap the uploader is left with, from the constants and the history only
SmapNow == SmapWithout(Cfg.smap0, Cfg.peer, failed \cap Cfg.writers)

\* put_header, put_block 0 .. NS-1, crypttext hashes, block hashes, share hashes, UEB, close: never out of order, nothing
\* twice, nothing skipped; aborts only at the very end of what a writer is told
XE_CallOrder ==
  \A w \in Cfg.writers :
    /\ IsPrefix(NonAbort(hist[w]), FullSequence(NS))
    /\ \A i \in 1..Len(hist[w]) : hist[w][i].m = "abort" => \A j \in i..Len(hist[w]) : hist[w][j].m = "abort"
\* "all blocks for segment A are delivered before any work is begun on segment B" (and likewise for the hash phases,
\* because writes must be appended): while a call is unanswered nobody has been told anything of a later phase
XE_OnePhaseAtATime ==
  \A w \in Cfg.writers : inflight[w] # 0 /\ E.res = "none" =>
    \A v \in Cfg.writers : \A i \in 1..Len(hist[v]) : hist[v][i].m # "abort" => PhaseOfCall(hist[v][i]) <= inflight[w]
\* a writer whose call failed is told nothing more - except abort
XE_NoCallAfterFailure ==
  \A w \in failed : \A i \in (failLen[w] + 1)..Len(hist[w]) : hist[w][i].m = "abort"
\* at the end every writer is either closed or aborted: a lost writer is aborted; after a failed upload every writer is
\* aborted; after a successful one every writer that was not lost is closed, was told everything, and is not aborted
XE_EndClosedOrAborted ==
  Finished =>
    /\ \A w \in failed : AbortedW(w)
    /\ E.res # "success" => \A w \in Cfg.writers : AbortedW(w)
    /\ E.res = "success" => \A w \in Cfg.writers \ failed : w \in closedOk /\ ~AbortedW(w) /\ hist[w] = FullSequence(NS)
\* the set of shares reported as placed = the writers that were closed and never failed
XE_SharesPlaced == E.res = "success" => E.placed = closedOk \ failed
\* success iff the layout that is left meets the threshold; a failure is justified by a loss that broke it
XE_SuccessMeetsHappiness == E.res = "success" => Happiness(SmapNow) >= Happy
XE_FailureJustified == E.res = "unhappy" => Happiness(SmapNow) < Happy
\* the upload goes on while the threshold is met: it never gives up for another reason than unhappiness or abort()
XE_ResultKinds == E.res \in {"none", "success", "unhappy", "aborted"}
\* abort() before the last segment is read stops the upload (no success); afterwards it is too late
XE_AbortHonoured ==
  /\ E.res = "aborted" => E.uabort = "early"
  /\ E.res = "success" => E.uabort # "early"
\* the uploadable is read once per segment and closed only after the last one
XE_ReadsInOrder ==
  /\ E.nread <= NS /\ E.rdone <= E.nread /\ E.nread <= E.rdone + 1
  /\ (E.uclosed => E.rdone = NS) /\ (E.res = "success" => E.rdone = NS /\ E.uclosed)
  /\ \A w \in Cfg.writers : \A i \in 1..Len(hist[w]) : hist[w][i].m = "put_block" => hist[w][i].seg < E.rdone
\* the design cannot get stuck without a result (deadlock checking is on; Done is the only stuttering end)
=============================================================================
