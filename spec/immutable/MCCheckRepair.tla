--------------------------- MODULE MCCheckRepair ---------------------------
(* Exhaustive model checking of CheckRepair (C45): every layout of share files
   over Servers x 0..N-1 with every position Missing or present with one of the
   damage sets in ShareStates; then check (with / without verification), one
   check-and-repair with every legal placement of the pushed shares and every
   set of k source shares the repairer's download may use, a check of the
   repaired grid and a read from the pushed shares alone.  The properties are
   stated on history variables against the ground truth (AllValid), not with
   the verifier's own chain.

   CheckBlockRoot = TRUE is the Spec.  With FALSE (a verifier that takes the
   block-hash-tree root from the share itself) TLC reports C45_GoodOnlyIfValid
   violated on a "foreign_blocks" share: the sensitivity demonstration. *)
EXTENDS CheckRepair

CONSTANTS K, N, Servers, ShareStates, CheckBlockRoot

C == [K |-> K, N |-> N, Servers |-> Servers]

VARIABLES L, phase, rep, rd
vars == <<L, phase, rep, rd>>

PosStates == {Missing} \cup {Share(d) : d \in ShareStates}
Layouts == [Servers -> [Shnums(C) -> PosStates]]

Init ==
  /\ L \in Layouts
  /\ phase = "start"
  /\ rep = [done |-> FALSE]
  /\ rd = "none"

\* A check does not change the grid: its answer on every reachable layout (initial and repaired) is
\* the state function Chk(v); the check properties below are invariants over it.
Chk(v) == CheckResX(C, L, v, CheckBlockRoot)

DoRepair(v) ==
  /\ phase = "start"
  /\ phase' = "repaired"
  /\ UNCHANGED rd
  /\ LET pre == CheckResX(C, L, v, CheckBlockRoot) IN
     IF pre.healthy
       THEN /\ L' = L
            /\ rep' = [done |-> TRUE, outcome |-> "notneeded", verify |-> v, Lpre |-> L, new |-> {},
                       res |-> RepairResX(C, L, v, {}, CheckBlockRoot)]
       ELSE \/ \E new \in Placements(C, L) :
                 \* nothing to push: no ciphertext is needed
                 \/ /\ new = {}
                    /\ L' = L
                    /\ rep' = [done |-> TRUE, outcome |-> "ok", verify |-> v, Lpre |-> L, new |-> {},
                               res |-> RepairResX(C, L, v, {}, CheckBlockRoot)]
                 \/ /\ new # {} /\ MayRead(C, L)
                    /\ \E ns \in {EncodedFrom({At(L, p) : p \in src}) : src \in Sources(C, L)} :
                         /\ L' = AfterRepair(C, L, new, ns)
                         /\ rep' = [done |-> TRUE, outcome |-> "ok", verify |-> v, Lpre |-> L, new |-> new,
                                    res |-> RepairResX(C, L, v, new, CheckBlockRoot)]
            \/ /\ ~MustRead(C, L)
               /\ L' = L
               /\ rep' = [done |-> TRUE, outcome |-> "failed", verify |-> v, Lpre |-> L, new |-> {},
                          res |-> RepairResX(C, L, v, {}, CheckBlockRoot)]

OnlyNew == [s \in Servers |-> [n \in Shnums(C) |-> IF <<s, n>> \in rep.new THEN L[s][n] ELSE Missing]]

DoReadNew ==
  /\ phase = "repaired" /\ rep.outcome = "ok"
  /\ rd' \in ReadOutcomes(C, OnlyNew)
  /\ phase' = "read"
  /\ UNCHANGED <<L, rep>>

Next == (\E v \in BOOLEAN : DoRepair(v)) \/ DoReadNew
Spec == Init /\ [][Next]_vars

(* ---- properties -------------------------------------------------------------- *)
Truth(v, LL) == IF v THEN ValidShnums(C, LL) ELSE PresentShnums(C, LL)

\* a share is reported good only if all of its blocks and hashes are the ones the capability commits to
C45_GoodOnlyIfValid == LET r == Chk(TRUE) IN \A p \in r.sharemap : AllValid(At(L, p))
\* and every such share that a server holds is reported good; the others are listed as corrupt / incompatible
C45_ValidIsGood ==
   LET r == Chk(TRUE) IN
   /\ {p \in Positions(C) : AllValid(At(L, p))} \subseteq r.sharemap
   /\ r.corrupt \cup r.incompatible = {p \in Positions(C) : At(L, p).present /\ ~AllValid(At(L, p))}
\* healthy exactly when N distinct good shares are found, recoverable exactly when at least k are
C45_HealthyRecoverable ==
   \A v \in BOOLEAN : LET r == Chk(v) t == Cardinality(Truth(v, L)) IN
      /\ r.healthy <=> t = N
      /\ r.recoverable <=> t >= K
      /\ r.good = t

C45_RepairIffUnhealthy == rep.done => (rep.res.attempted <=> Cardinality(Truth(rep.verify, rep.Lpre)) < N)
C45_RepairNewValid == (rep.done /\ rep.outcome = "ok") => \A p \in rep.new : AllValid(At(L, p))
C45_RepairKeepsExisting == rep.done => \A p \in Positions(C) : At(rep.Lpre, p).present => At(L, p) = At(rep.Lpre, p)
C45_RepairRestoresAbsent == (rep.done /\ rep.outcome = "ok") => PresentShnums(C, L) = Shnums(C)
C45_RepairMustWork == (rep.done /\ rep.res.attempted /\ Cardinality(ValidShnums(C, rep.Lpre)) >= K) => rep.outcome = "ok"
\* with verification the post-repair results tell the truth about the repaired grid
C45_PostResultsTrue == (rep.done /\ rep.verify) =>
   /\ rep.res.post.healthy <=> Cardinality(ValidShnums(C, L)) = N
   /\ rep.res.post.recoverable <=> Cardinality(ValidShnums(C, L)) >= K
   /\ rep.res.attempted => (rep.res.successful <=> Cardinality(ValidShnums(C, L)) = N)
C45_ReadableFromRepaired == rd # "none" => /\ rd # "wrong"
                                            /\ Cardinality(ShnumsOf(rep.new)) >= K => rd = "ok"
=============================================================================
