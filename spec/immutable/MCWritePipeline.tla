-------------------------- MODULE MCWritePipeline --------------------------
(* Design model of one share being pushed through a WriteBucketProxy: a client that calls the put_*
   methods in layout order and then close(), the proxy's write buffer, a transport that completes the
   outstanding remote calls (in send order, or in any order), a server bucket, injected failures.

   Bytes are abstracted to their position in the share: the data of field i is the sequence of the
   positions it occupies, so "byte b reached the server at the offset the layout prescribes" reads
   "the server holds value x at position x".

   Client disciplines
     "waiting"  the next call is made only after the Deferred of the previous one fired (what
                immutable/encode.py does; [L-batch] "assuming the writing code waits for writes to finish")
     "eager"    calls are made back to back; [L-cls] only asks for the order
   A client that saw an errback, or whose call was refused, stops and may call abort() (the Encoder's
   _remove_shareholder).

   Deviations (switches that make the model behave like the implementation where it departs from the
   stated rules; the extra requires TLC to name the invariant each one breaks):
     "two_phase_crypttext"  put_crypttext_hashes queues the null filler first and the hashes only
                            after the write that the filler may have triggered has completed; a call
                            made in between fails the input check of _queue_write.
   Necessity of the caller's discipline (each named mode must break a stated invariant): an eager
   client with unordered completion, and an eager client with one failed write, leave a finalized share
   with a hole: the proxy gives a caller that does not wait for its Deferreds no protection (the
   failure latch of the former util/pipeline.py is gone).                                              *)
EXTENDS WritePipeline

CONSTANTS Modes,        \* names of the configurations explored in this run (ModeDef below)
          BatchKind     \* "all" / "edge" / "few": which batch sizes are tried (BatchSet below)

P1 == [version |-> 1, datasize |-> 3, blocksize |-> 2, numsegs |-> 2, N |-> 1, uebsize |-> 3]
P2 == [version |-> 2, datasize |-> 1, blocksize |-> 1, numsegs |-> 1, N |-> 3, uebsize |-> 5]
P3 == [version |-> 1, datasize |-> 5, blocksize |-> 2, numsegs |-> 3, N |-> 2, uebsize |-> 1]
Pars == {P1, P2, P3}

\* a configuration: share parameters, client discipline, transport, fault budget, deviations
Mode(par, d, t, f, dev) == [par |-> par, d |-> d, t |-> t, f |-> f, dev |-> dev]
ModeDef(m) ==
  CASE m = "waiting_code_P1"   -> Mode(P1, "waiting", "unordered", 2, {"two_phase_crypttext"})   \* the code as it is, used as the Encoder uses it
    [] m = "waiting_code_P2"   -> Mode(P2, "waiting", "unordered", 2, {"two_phase_crypttext"})
    [] m = "waiting_code_P3"   -> Mode(P3, "waiting", "unordered", 3, {"two_phase_crypttext"})
    [] m = "waiting_P1"        -> Mode(P1, "waiting", "unordered", 2, {})
    [] m = "waiting_P2"        -> Mode(P2, "waiting", "unordered", 2, {})
    [] m = "eager_ordered_P1"  -> Mode(P1, "eager", "ordered", 0, {})
    [] m = "eager_ordered_P2"  -> Mode(P2, "eager", "ordered", 0, {})
    [] m = "eager_ordered_P3"  -> Mode(P3, "eager", "ordered", 0, {})
    \* necessity runs: each breaks a stated invariant
    [] m = "eager_code_P1"     -> Mode(P1, "eager", "ordered", 0, {"two_phase_crypttext"})
    [] m = "eager_unordered_P1" -> Mode(P1, "eager", "unordered", 0, {})
    [] m = "eager_fault_P1"    -> Mode(P1, "eager", "ordered", 1, {})

\* the layout numbers of each parameter set, computed once (constant level)
Lay == [q \in Pars |-> [alloc |-> PAlloc(q), nf |-> NumFields(q), segh |-> PSegHash(q),
                        crypt |-> POff(q).crypttext_hash_tree,
                        name |-> [i \in 1..NumFields(q) |-> FieldName(q, i)],
                        foff |-> [i \in 1..NumFields(q) |-> FieldOff(q, i)],
                        flen |-> [i \in 1..NumFields(q) |-> FieldLen(q, i)]]]
ASSUME LayoutTiles == \A q \in Pars : FieldsTile(q)

VARIABLES mode, batch, B, nxt, handed, puts, calls, srv, cl, faults, dead, refused, gaveup
vars == <<mode, batch, B, nxt, handed, puts, calls, srv, cl, faults, dead, refused, gaveup>>

M == ModeDef(mode)
L == Lay[M.par]
Discipline == M.d
Transport == M.t
MaxFaults == M.f
Deviations == M.dev
NF == L.nf
Alloc == L.alloc
FOff(i) == L.foff[i]
FLen(i) == L.flen[i]
SegH == L.segh
PosSeq(a, n) == [j \in 1..n |-> a + j - 1]

\* batch sizes: all of them up to above the allocated size / around every field boundary (and with the filler of
\* put_crypttext_hashes as a boundary of its own) / a few
BatchSet(lay) ==
  CASE BatchKind = "all" -> 1..(lay.alloc + 2)
    [] BatchKind = "edge" -> {b \in {1, 1000000} \cup {lay.foff[i] + d : i \in 2..lay.nf, d \in {-1, 0, 1}}
                                  \cup {lay.crypt + d : d \in {-1, 0, 1}} \cup {lay.alloc - 1, lay.alloc, lay.alloc + 1} : b >= 1}
    [] BatchKind = "few" -> {1, 40, lay.crypt, 1000000}

Init == /\ mode \in Modes
        /\ batch \in BatchSet(Lay[ModeDef(mode).par])
        /\ B = WB0 /\ nxt = 1 /\ handed = 0
        /\ puts = [i \in 1..Lay[ModeDef(mode).par].nf |-> [st |-> "none", phase2 |-> FALSE]]
        /\ calls = <<>> /\ srv = Srv0 /\ cl = "no" /\ faults = 0 /\ dead = FALSE /\ refused = FALSE /\ gaveup = FALSE

Outstanding == {c \in 1..Len(calls) : calls[c].st = "out"}
SeenErr == cl = "err" \/ \E i \in 1..NF : puts[i].st = "err"
AllFired == \A i \in 1..NF : puts[i].st # "pending"
ClientMayAct == ~SeenErr /\ ~refused /\ cl = "no" /\ (Discipline = "waiting" => AllFired)

Call(meth, off, data, owner, h) == [meth |-> meth, off |-> off, data |-> data, st |-> "out", owner |-> owner, handed |-> h]
\* queue data; when the buffer says so, do a real write (owner: field index, 0 = close)
Queued(Bx, cs, data, owner, h) ==
  LET B1 == WBQueue(Bx, data) IN
  IF WBFull(B1, batch) THEN [B |-> WBFlush(B1), calls |-> Append(cs, Call("write", WBCall(B1).off, WBCall(B1).data, owner, h)), sent |-> TRUE]
                       ELSE [B |-> B1, calls |-> cs, sent |-> FALSE]

Put ==
  /\ ClientMayAct /\ nxt <= NF
  /\ LET i == nxt
         two == L.name[i] = "crypttext" /\ "two_phase_crypttext" \in Deviations
         half == SegH
         h == FOff(i) + FLen(i)
     IN IF FOff(i) # WBTotal(B)                         \* "the offset ... is used to check the inputs"
        THEN /\ refused' = TRUE
             /\ UNCHANGED <<mode, batch, B, nxt, handed, puts, calls, srv, cl, faults, dead, gaveup>>
        ELSE /\ nxt' = nxt + 1 /\ handed' = h
             /\ IF ~two
                THEN LET q == Queued(B, calls, PosSeq(FOff(i), FLen(i)), i, h) IN
                     /\ B' = q.B /\ calls' = q.calls
                     /\ puts' = [puts EXCEPT ![i] = [st |-> IF q.sent THEN "pending" ELSE "ok", phase2 |-> FALSE]]
                ELSE LET q1 == Queued(B, calls, PosSeq(FOff(i), half), i, h) IN
                     IF q1.sent
                     THEN /\ B' = q1.B /\ calls' = q1.calls
                          /\ puts' = [puts EXCEPT ![i] = [st |-> "pending", phase2 |-> TRUE]]
                     ELSE LET q2 == Queued(q1.B, q1.calls, PosSeq(FOff(i) + half, half), i, h) IN
                          /\ B' = q2.B /\ calls' = q2.calls
                          /\ puts' = [puts EXCEPT ![i] = [st |-> IF q2.sent THEN "pending" ELSE "ok", phase2 |-> FALSE]]
             /\ UNCHANGED <<mode, batch, srv, cl, faults, dead, refused, gaveup>>

Close ==
  /\ ClientMayAct /\ nxt = NF + 1
  /\ IF WBTotal(B) # Alloc                                     \* the assertion of close()
     THEN /\ refused' = TRUE /\ UNCHANGED <<B, calls, cl>>
     ELSE /\ refused' = refused
          /\ IF Len(B.queued) > 0
             THEN /\ calls' = Append(calls, Call("write", WBCall(B).off, WBCall(B).data, 0, handed))
                  /\ B' = WBFlush(B) /\ cl' = "called"
             ELSE /\ calls' = Append(calls, Call("close", 0, <<>>, 0, handed))     \* "don't send empty string write"
                  /\ B' = B /\ cl' = "sent"
  /\ UNCHANGED <<mode, batch, nxt, handed, puts, srv, faults, dead, gaveup>>

Abort ==
  /\ (SeenErr \/ refused) /\ ~gaveup
  /\ gaveup' = TRUE
  /\ calls' = Append(calls, Call("abort", 0, <<>>, -1, handed))
  /\ UNCHANGED <<mode, batch, B, nxt, handed, puts, srv, cl, faults, dead, refused>>

Oldest == CHOOSE c \in Outstanding : \A d \in Outstanding : c <= d

Deliver(c, f) ==
  /\ c \in Outstanding
  /\ Transport = "ordered" => c = Oldest
  /\ f # "none" => faults < MaxFaults /\ ~dead
  /\ LET call == calls[c]
         res == IF dead \/ f # "none" THEN "err"
                ELSE IF call.meth = "write" THEN SrvWriteRes(srv, call.off, call.data, Alloc)
                ELSE IF call.meth = "close" THEN SrvCloseRes(srv)
                ELSE "ok"
         srv1 == IF f = "disconnect" THEN SrvAbort(srv)        \* the server drops the bucket of a lost connection
                 ELSE IF res # "ok" THEN srv
                 ELSE IF call.meth = "write" THEN SrvWrite(srv, call.off, call.data)
                 ELSE IF call.meth = "close" THEN SrvClose(srv)
                 ELSE SrvAbort(srv)
         cs1 == [calls EXCEPT ![c].st = res]
         o == call.owner
     IN /\ srv' = srv1
        /\ faults' = IF f # "none" THEN faults + 1 ELSE faults
        /\ dead' = (dead \/ f = "disconnect")
        /\ IF o > 0 THEN
              /\ cl' = cl
              /\ IF res = "err" THEN /\ puts' = [puts EXCEPT ![o].st = "err"] /\ calls' = cs1 /\ B' = B
                 ELSE IF puts[o].phase2 THEN
                      \* _really_put_crypttext_hashes, run by the callback of the filler's write
                      IF FOff(o) + SegH # WBTotal(B)
                      THEN /\ puts' = [puts EXCEPT ![o] = [st |-> "err", phase2 |-> FALSE]] /\ calls' = cs1 /\ B' = B
                      ELSE LET q == Queued(B, cs1, PosSeq(FOff(o) + SegH, SegH), o, handed) IN
                           /\ B' = q.B /\ calls' = q.calls
                           /\ puts' = [puts EXCEPT ![o] = [st |-> IF q.sent THEN "pending" ELSE "ok", phase2 |-> FALSE]]
                 ELSE /\ puts' = [puts EXCEPT ![o].st = "ok"] /\ calls' = cs1 /\ B' = B
           ELSE IF o = 0 THEN
              /\ puts' = puts /\ B' = B
              /\ IF res = "err" THEN cl' = "err" /\ calls' = cs1
                 ELSE IF call.meth = "write" THEN /\ cl' = "sent"
                                                  /\ calls' = Append(cs1, Call("close", 0, <<>>, 0, handed))
                 ELSE cl' = "ok" /\ calls' = cs1
           ELSE /\ puts' = puts /\ B' = B /\ cl' = cl /\ calls' = cs1     \* abort: errors are only logged
  /\ UNCHANGED <<mode, batch, nxt, handed, refused, gaveup>>

Next == Put \/ Close \/ Abort \/ \E c \in 1..Len(calls), f \in {"none", "raise", "disconnect"} : Deliver(c, f)
Spec == Init /\ [][Next]_vars

(* ======================= what the behaviour should be (independent of the operators) ============= *)
Writes == {c \in 1..Len(calls) : calls[c].meth = "write"}
RECURSIVE LenBefore(_)
LenBefore(c) == IF c <= 1 THEN 0 ELSE LenBefore(c - 1) + (IF calls[c - 1].meth = "write" THEN Len(calls[c - 1].data) ELSE 0)
SentBytes == LenBefore(Len(calls) + 1)

\* [L-qw] in order, with no holes: every write starts where the previous one ended
WP_NoHoles == \A c \in Writes : calls[c].off = LenBefore(c)
\* every byte is the one handed over for that position, and nothing is written that was not handed over yet
WP_BytesAsPut == \A c \in Writes : /\ calls[c].data = PosSeq(calls[c].off, Len(calls[c].data))
                                   /\ calls[c].off + Len(calls[c].data) <= calls[c].handed
\* [L-close] never an empty write
WP_NoEmptyWrite == \A c \in Writes : Len(calls[c].data) > 0
\* [L-qw][L-wb] small writes are batched: outside close() a real write happens only when batch bytes wait
WP_NoSmallWrites == \A c \in Writes : calls[c].owner # 0 => calls[c].handed - calls[c].off >= batch
\* ... and it does happen then: with every Deferred fired less than one batch is held back
WP_BufferBounded == (AllFired /\ ~SeenErr /\ ~refused /\ cl = "no") => handed - SentBytes < batch
\* a call made in the documented order is accepted [L-cls]
WP_InOrderAccepted == ~refused
\* [I-w] a Deferred fires when the operation completed: not before its writes were answered, with the
\* error when one of them failed, and never with an error that did not happen
Owned(i) == {c \in 1..Len(calls) : calls[c].owner = i}
WP_NoEarlyFire == \A i \in 1..NF : puts[i].st = "ok" => \A c \in Owned(i) : calls[c].st = "ok"
WP_FailureReachesCaller == /\ \A i \in 1..NF : (\E c \in Owned(i) : calls[c].st = "err") => puts[i].st = "err"
                           /\ (\E c \in Owned(0) : calls[c].st = "err") => cl = "err"
WP_NoSpuriousFailure == /\ \A i \in 1..NF : puts[i].st = "err" => \E c \in Owned(i) : calls[c].st = "err"
                        /\ cl = "err" => \E c \in Owned(0) : calls[c].st = "err"
WP_CloseSuccessMeansClosed == cl = "ok" => \E c \in Owned(0) : calls[c].meth = "close" /\ calls[c].st = "ok"
\* [L-close][I-w] close goes out once, after every byte was sent and after close()'s own write was answered
\* positively; nothing follows it
Closes == {c \in 1..Len(calls) : calls[c].meth = "close"}
WP_CloseAfterWrites == \A c \in Closes : /\ LenBefore(c) = Alloc
                                         /\ \A w \in Writes : calls[w].owner = 0 => w < c /\ calls[w].st = "ok"
                                         /\ \A w \in Writes : w < c
WP_CloseOnce == Cardinality(Closes) <= 1
\* a waiting caller never has two calls of one bucket in flight: the completion order cannot matter
WP_WaitingOneOutstanding == Discipline = "waiting" => Cardinality({c \in Outstanding : calls[c].meth # "abort"}) <= 1
\* [I-w][I-rw] a share that the server finalized holds every byte at its position
WP_ClosedShareComplete == srv.st = "final" => /\ SrvComplete(srv, Alloc)
                                              /\ srv.img = PosSeq(0, Alloc)
\* the client learned of success only if the share is final, and a lost connection leaves nothing behind
WP_SuccessMeansFinal == cl = "ok" => srv.st = "final"
\* no hang, and without faults everything succeeds
Quiescent == Outstanding = {} /\ ~ClientMayAct /\ ((SeenErr \/ refused) => gaveup)
WP_QuiescentOutcome == Quiescent => /\ AllFired
                                    /\ (faults = 0 /\ ~refused) => (cl = "ok" /\ srv.st = "final" /\ \A i \in 1..NF : puts[i].st = "ok")
                                    /\ cl \in {"ok", "err", "no"}
=============================================================================
