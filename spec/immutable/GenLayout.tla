----------------------------- MODULE GenLayout -----------------------------
(* GEN mode for C01: the Spec enumerates encoding tuples (size, k, N, maxseg, layout
   version) with sizes concentrated where the arithmetic changes shape - the literal
   threshold, one byte below / on / above a multiple of the segment size, a partial
   tail that needs padding - and writes each tuple with everything Layout.tla says
   the uploader must commit to.  The driver uploads every tuple on the real code and
   downloads it under a seeded delivery order.  The lemmas of Layout.tla are checked
   on every enumerated tuple (invariant TableOK). *)
EXTENDS Layout, Json, IOUtils, SequencesExt

CONSTANTS KsG, ExtraG, \* k and N - k
          MaxSegsG,   \* maximum segment sizes
          Multiples,  \* how many segment-size multiples above the literal threshold are visited
          V2MaxSegs,  \* maximum segment sizes for which the v2 (8-byte offsets) layout is also generated
          LitSizes    \* literal sizes to include

\* sizes around the multiples of the full segment size that lie just above the literal threshold
SizesFor(k, maxseg) ==
  LET s == NextMultiple(maxseg, k)
      m0 == DivCeil(LitThreshold + 1, s)
  IN {z \in {LitThreshold + 1, LitThreshold + 2} \cup
             UNION {{(m0 + j) * s - 1, (m0 + j) * s, (m0 + j) * s + 1, (m0 + j) * s + k - 1, (m0 + j) * s + k} : j \in 0..(Multiples - 1)} :
        z > LitThreshold}

KNs == {kn \in {<<k, k + e>> : k \in KsG, e \in ExtraG} : kn[2] <= 16}
Versions(m) == IF m \in V2MaxSegs THEN {1, 2} ELSE {1}
Cases == UNION {{[size |-> z, k |-> kn[1], N |-> kn[2], maxseg |-> m, version |-> v, lit |-> FALSE,
                  d |-> Derived(z, kn[1], kn[2], m, v)] : z \in SizesFor(kn[1], m), v \in Versions(m)} :
                kn \in KNs, m \in MaxSegsG}
LitCases == {[size |-> z, k |-> kn[1], N |-> kn[2], maxseg |-> m, version |-> 1, lit |-> TRUE] :
               kn \in KNs, m \in {CHOOSE x \in MaxSegsG : TRUE}, z \in LitSizes}

ASSUME ndJsonSerialize(IOEnv.OUT_FILE, SetToSeq(Cases) \o SetToSeq(LitCases))

VARIABLE c
Init == c \in Cases \cup LitCases
Next == UNCHANGED c
Spec == Init /\ [][Next]_c
TableOK == /\ c.lit = IsLit(c.size)
           /\ ~c.lit => LayoutLemmas(c.size, c.k, c.N, c.maxseg, c.version)
=============================================================================
