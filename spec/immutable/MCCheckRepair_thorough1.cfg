SPECIFICATION Spec
CONSTANTS
  K = 2
  N = 3
  Servers = {"s0", "s1"}
  ShareStates = {{}, {"data"}, {"version"}, {"foreign_blocks"}, {"ignored"}}
  CheckBlockRoot = TRUE
INVARIANT C45_GoodOnlyIfValid
INVARIANT C45_ValidIsGood
INVARIANT C45_HealthyRecoverable
INVARIANT C45_RepairIffUnhealthy
INVARIANT C45_RepairNewValid
INVARIANT C45_RepairKeepsExisting
INVARIANT C45_RepairRestoresAbsent
INVARIANT C45_RepairMustWork
INVARIANT C45_PostResultsTrue
INVARIANT C45_ReadableFromRepaired
CHECK_DEADLOCK FALSE
