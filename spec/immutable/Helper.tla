------------------------------- MODULE Helper -------------------------------
(* Helper-assisted immutable upload (C44).

   Code: immutable/offloaded.py (Helper.remote_upload_chk, CHKCheckerAndUEBFetcher,
   CHKUploadHelper, CHKCiphertextFetcher, LocalCiphertextReader) and
   immutable/upload.py (AssistedUploader, RemoteEncryptedUploadable).

   The ciphertext of the file is Ct = <<1, .., Size>> (position-tagged bytes: it
   is fixed by the file, the convergence secret and the parameters).  A cap and
   a share are determined by the ciphertext they were made from, so they are
   represented by that ciphertext.  A direct upload yields cap Ct and shares
   made from Ct.

   State H:
     inc, enc   the helper's CHK_incoming/<si> and CHK_encoding/<si> files (persistent)
     grid[n]    share n on the grid: absent, or the ciphertext it was encoded from
     sess       the running CHKUploadHelper + the client's RemoteEncryptedUploadable:
                have = bytes in the incoming file as the fetcher counts them,
                roff = the client reader's offset (only moves forward),
                got  = bytes fetched in this session
     mode       idle | session | present | interrupted | done
     result     the cap handed to the client by the last successful upload
     fetched    ghost: bytes fetched since the ciphertext files were last empty
     pushes     ghost: shares written to storage servers so far
   Operators take c = [Size, Chunk, N, ResumeAt]; ResumeAt = "fetched" is the
   Spec, "zero" describes a fetcher that restarts at offset 0 while appending. *)
EXTENDS Common

Ct(c) == [i \in 1..c.Size |-> i]
NoFile == [present |-> FALSE, data |-> <<>>]
File(d) == [present |-> TRUE, data |-> d]
NoSess == [active |-> FALSE, sized |-> FALSE, have |-> 0, roff |-> 0, got |-> 0]
Shn(c) == 0..(c.N - 1)

InitH(c, pre) ==
  [inc |-> NoFile, enc |-> NoFile,
   grid |-> [n \in Shn(c) |-> IF n \in pre THEN File(Ct(c)) ELSE NoFile],
   sess |-> NoSess, mode |-> "idle", result |-> NoFile, fetched |-> 0, pushes |-> 0]

PresentShares(c, H) == {n \in Shn(c) : H.grid[n].present}

(* Helper.remote_upload_chk: CHKCheckerAndUEBFetcher reports the file present iff
   all N share numbers are found; then no CHKUploadHelper is made. *)
StartRes(c, H) == IF PresentShares(c, H) = Shn(c) THEN "present" ELSE "session"
\* the UEB (hence the cap) comes from a share on the grid
AlreadyPresent(c, H) == [H EXCEPT !.mode = "present", !.sess = NoSess,
                                  !.result = File(H.grid[CHOOSE n \in Shn(c) : TRUE].data)]
\* Helper.remote_upload_chk while an upload of the same storage index is active ("upload is currently active"):
\* the second client is handed the same CHKUploadHelper; its reader is added behind the first one
\* (AskUntilSuccessMixin asks the first reader only).  The session, the files and what was fetched stay as they are.
JoinRes(c, H) == "session"
Join(c, H) == H
\* a new CHKUploadHelper and, on the client, a new RemoteEncryptedUploadable at offset 0
Start(c, H) == [H EXCEPT !.mode = "session", !.sess = [NoSess EXCEPT !.active = TRUE]]

(* CHKCiphertextFetcher._start: if the encoding file exists the fetch is bypassed;
   otherwise get_size, then _start_reading: have := size of the incoming file
   (opened for append, created if missing). *)
NeedsFetch(H) == ~H.enc.present
GotSize(c, H) ==
  [H EXCEPT !.sess.sized = TRUE,
            !.sess.have = IF c.ResumeAt = "fetched" /\ H.inc.present THEN Len(H.inc.data) ELSE 0,
            !.inc = IF H.inc.present THEN H.inc ELSE File(<<>>)]

(* _fetch: read_encrypted(have, min(Size - have, CHUNK_SIZE)) *)
CanFetch(c, H) == H.sess.active /\ H.sess.sized /\ NeedsFetch(H) /\ H.sess.have < c.Size
FetchReq(c, H) == [offset |-> H.sess.have, length |-> Min(c.Chunk, c.Size - H.sess.have)]
\* RemoteEncryptedUploadable.remote_read_encrypted: never backwards; skipped bytes are read and hashed only
ClientCanServe(H, off) == off >= H.sess.roff
ClientData(c, off, len) == SubSeq(Ct(c), off + 1, off + len)
Fetch(c, H) ==
  LET r == FetchReq(c, H) IN
  [H EXCEPT !.inc = File(H.inc.data \o ClientData(c, r.offset, r.length)),   \* appended to the incoming file
            !.sess.have = @ + r.length, !.sess.roff = r.offset + r.length, !.sess.got = @ + r.length,
            !.fetched = @ + r.length]
\* _done: the complete incoming file is renamed to the encoding file
FetchComplete(c, H) == H.sess.active /\ H.sess.sized /\ NeedsFetch(H) /\ H.sess.have >= c.Size
FetchDone(c, H) == [H EXCEPT !.enc = File(H.inc.data), !.inc = NoFile]

\* any failed helper->client call ends the CHKUploadHelper; the files stay
Interrupt(H) == [H EXCEPT !.sess = NoSess, !.mode = "interrupted"]

(* start_encrypted(LocalCiphertextReader): encode the encoding file, push the share
   numbers the grid lacks, hand the cap to the client, delete the file *)
CanEncode(H) == H.sess.active /\ H.enc.present
EncodePush(c, H) ==
  [H EXCEPT !.grid = [n \in Shn(c) |-> IF H.grid[n].present THEN H.grid[n] ELSE File(H.enc.data)],
            !.pushes = @ + Cardinality(Shn(c) \ PresentShares(c, H)),
            !.result = File(H.enc.data), !.enc = NoFile, !.sess = NoSess, !.mode = "done", !.fetched = 0]

LoseShares(c, H, keep) == [H EXCEPT !.grid = [n \in Shn(c) |-> IF n \in keep THEN H.grid[n] ELSE NoFile], !.mode = "idle"]
=============================================================================
