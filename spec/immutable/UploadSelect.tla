---------------------------- MODULE UploadSelect ----------------------------
(* Immutable upload: server selection, push, close and the success decision
   (C06), as pure operators over an explicit store state.  The server side is
   the storage Spec's immutable-share life cycle kept abstract:

     St[s] = [fin |-> share numbers that are final (visible to readers),
              inc |-> share numbers being written (incoming, invisible)]
     holes  = set of <<s, sh>> buckets for which some write was not executed

   allocate_buckets answers (alreadygot, allocated): alreadygot = all final
   shares of the server; a bucket writer is created for an asked share that is
   neither final nor incoming, if the server accepts writes.  close makes an
   incoming share final; abort removes it.

   The uploader's claim is a pair (placed, found) of sets of <<s, sh>>; the
   success guard of the statement:
     Happiness(placed \cup found) >= happy, every placed share final on the
     server named and complete, every found share final on the server named. *)
EXTENDS Happiness

EmptyStore(Srv) == [s \in Srv |-> [fin |-> {}, inc |-> {}]]
FinalOn(St, s) == St[s].fin
IncomingOn(St, s) == St[s].inc

AcceptsWrites(mode) == mode \notin {"readonly", "full_known", "full_hidden", "full"}
AllocAlready(St, s) == FinalOn(St, s)
AllocCandidates(St, s, asked) == asked \ (FinalOn(St, s) \cup IncomingOn(St, s))
ApplyAllocate(St, s, allocated) == [St EXCEPT ![s].inc = @ \cup allocated]
ApplyClose(St, s, sh) == IF sh \in IncomingOn(St, s)
                           THEN [St EXCEPT ![s].inc = @ \ {sh}, ![s].fin = @ \cup {sh}] ELSE St
ApplyAbort(St, s, sh) == [St EXCEPT ![s].inc = @ \ {sh}]

\* a set of <<server, share>> pairs as the layout  server -> shares
AdjOfPairs(P) == [s \in {p[1] : p \in P} |-> {p[2] : p \in {q \in P : q[1] = s}}]
HappinessOfPairs(P) == MaxMatching(AdjOfPairs(P))

PlacedFinal(St, placed) == \A p \in placed : p[2] \in FinalOn(St, p[1])
PlacedComplete(holes, placed) == placed \cap holes = {}
FoundPresent(St, found) == \A p \in found : p[2] \in FinalOn(St, p[1])
SuccessGuard(St, holes, placed, found, happy) ==
  /\ HappinessOfPairs(placed \cup found) >= happy
  /\ PlacedFinal(St, placed) /\ PlacedComplete(holes, placed) /\ FoundPresent(St, found)

\* what readers can see is complete
NoPartialVisible(St, holes) == \A s \in DOMAIN St : \A sh \in FinalOn(St, s) : <<s, sh>> \notin holes
=============================================================================
