------------------------- MODULE ProducerConsumer -------------------------
(* Flow control of one read(consumer, offset, size) of a readable node, seen at the consumer: the contract that the
   producer which a node attaches to the consumer has to keep, as operators over an explicit contract state.  Used by
   MCProducerConsumer.tla (design level: producers of several designs against an adversarial consumer) and by
   TraceProducerConsumer.tla (recorded reads of the real LiteralFileNode, ImmutableFileNode and MutableFileVersion).

   Sources of the rules
     [R]   allmydata/interfaces.py, IReadable.read docstring: registerProducer(p, streaming); for streaming == False the
           consumer calls p.resumeProducing() for every write; unregisterProducer(); deferred.callback(consumer).  "Return a
           Deferred that fires (with the consumer) when the consumer is unregistered".  "If a download error occurs, or an
           exception is raised by consumer.registerProducer() or consumer.write(), I will call
           consumer.unregisterProducer() and then deliver the exception via deferred.errback().  To cancel the download,
           the consumer should call p.stopProducing(), which will result in an exception being delivered via
           deferred.errback()."  "The portion downloaded will start at 'offset' and contain 'size' bytes (or the
           remainder of the file if size==None)."
     [C]   twisted/internet/interfaces.py IConsumer: "the producer is assumed to start in an un-paused state";
           write(): "If the producer has provided enough data for now and it is a IPushProducer, the consumer may call
           its pauseProducing method" (i.e. re-entrantly, from inside write()).
     [P]   IProducer.stopProducing: "it must stop producing data for good".
     [PP]  IPushProducer: "expected to produce data on a continuous basis, unless it has been paused";
           pauseProducing: "stop until resumeProducing() is called".
     [PL]  IPullProducer.resumeProducing: "produce data for the consumer once (not repeatedly, once only) ... The producer
           should produce data before returning from resumeProducing(), that is, it should not schedule a deferred write."
     [S]   immutable/downloader/segmentation.py: "the consumer might call our .pauseProducing() inside that write() call".

   Events of a read (what the consumer and the caller of read() can see):
     Register(streaming)   Write(data)   Unregister            calls of the producer on the consumer
     Pause / Resume / Stop (origin, t)   Ret(m, raised)        calls of the consumer on the producer and their return;
                                                               origin = "register" | "write" (re-entrant, made from inside
                                                               that call of the consumer) | "outside"; t = reactor turn
     Raise                                                     consumer.write() raised
     Cancel                                                    the caller of read() cancelled the Deferred
     Fired(res, withc)                                         the Deferred of read() fired: "ok" (withc: with the consumer) / "err"
     ReadRaised                                                read() itself raised
     End(lost, idle)                                           nothing can happen any more (no call pending, no timer);
                                                               lost = calls that will never be answered, idle = the
                                                               consumer stopped pulling (non-streaming mode)

   A step answers [c, d, soft, S]: c = name of the clause that the event breaks ("" = none), d = detail (which
   situation; part of the finding key, not of the rule), soft = the contract state is still meaningful and the rest
   of the behaviour is judged as well, S = next contract state. *)
EXTENDS Common

\* want = the bytes of the requested range (expected writes, concatenated); faulty = the environment injected faults
\* (server errors, lost connections), so a failing read is no surprise
PCNew(want, faulty) ==
  [want |-> want, pos |-> 0, reg |-> "no", streaming |-> TRUE, paused |-> FALSE, porigin |-> "", resumeT |-> -1,
   stopped |-> FALSE, broken |-> FALSE, cancelled |-> FALSE, fired |-> "", firedReg |-> FALSE, calls |-> <<>>,
   resumes |-> 0, writes |-> 0, faulty |-> faulty]

PCOk(S) == [c |-> "", d |-> "", soft |-> FALSE, S |-> S]
PCHard(S, c) == [c |-> c, d |-> "", soft |-> FALSE, S |-> S]
PCSoft(S2, c, d) == [c |-> c, d |-> d, soft |-> TRUE, S |-> S2]

\* why a read may end without success
PCCause(S) == IF S.stopped THEN "stop" ELSE IF S.broken THEN "consumer_error" ELSE IF S.cancelled THEN "cancel"
              ELSE IF S.faulty THEN "fault" ELSE "none"

(* ---------------- producer -> consumer ---------------- *)
\* [R]: one registration per read, before the result
PCRegister(S, e) ==
  IF S.reg # "no" THEN PCHard(S, "PC_RegisterOnce")
  ELSE IF S.fired # "" THEN PCHard(S, "PC_RegisterAfterFired")
  ELSE PCOk([S EXCEPT !.reg = "yes", !.streaming = e.streaming])

\* [R] writes only between register and unregister; [P] none after stopProducing; [R] none after the consumer raised;
\* [PP] none while paused; [PL] one write per resumeProducing of the consumer, made inside that call; [R] the bytes are
\* the requested range, in order
PCWrite(S, e) ==
  LET n == Len(e.data)
      S2 == [S EXCEPT !.pos = @ + n, !.writes = @ + 1] IN
  IF S.reg = "no" THEN PCHard(S, "PC_WriteBeforeRegister")
  ELSE IF S.reg = "done" THEN PCHard(S, "PC_WriteAfterUnregister")
  ELSE IF S.fired # "" THEN PCHard(S, "PC_WriteAfterFired")
  ELSE IF S.stopped THEN PCHard(S, "PC_WriteAfterStop")
  ELSE IF S.broken THEN PCHard(S, "PC_WriteAfterConsumerError")
  ELSE IF ~S.streaming /\ S.calls = <<>> THEN PCHard(S, "PC_PullWriteOutsideResume")
  ELSE IF ~S.streaming /\ S.writes >= S.resumes THEN PCHard(S, "PC_PullOneWritePerResume")
  ELSE IF S.pos + n > Len(S.want) THEN PCHard(S, "PC_ExactRange")
  ELSE IF n > 0 /\ SubSeq(S.want, S.pos + 1, S.pos + n) # e.data THEN PCHard(S, "PC_ExactRange")
  ELSE IF S.streaming /\ S.paused THEN PCSoft(S2, "PC_WriteWhilePaused", S.porigin)
  ELSE PCOk(S2)

PCUnregister(S, e) ==
  IF S.reg = "no" THEN PCHard(S, "PC_UnregisterWithoutRegister")
  ELSE IF S.reg = "done" THEN PCHard(S, "PC_UnregisterOnce")
  ELSE PCOk([S EXCEPT !.reg = "done"])

\* [R]: fires once; with the consumer; success means every byte of the range was written; an error needs a cause;
\* the consumer is unregistered first (judged at End, where "late" and "never" can be told apart)
PCFired(S, e) ==
  LET S2 == [S EXCEPT !.fired = e.res, !.firedReg = (S.reg = "yes" /\ ~S.cancelled)] IN
  IF S.fired # "" THEN PCHard(S, "PC_FiredOnce")
  ELSE IF e.res = "ok" /\ S.pos # Len(S.want) THEN PCHard(S, "PC_SuccessIsComplete")
  ELSE IF e.res # "ok" /\ PCCause(S) = "none" THEN PCHard(S, "PC_SpuriousFailure")
  ELSE IF e.res = "ok" /\ S.broken THEN PCSoft(S2, "PC_ConsumerErrorSwallowed", "")
  ELSE IF e.res = "ok" /\ ~e.withc THEN PCSoft(S2, "PC_FiresWithConsumer", "")
  ELSE PCOk(S2)

(* ---------------- consumer -> producer (the adversary; its own well-formedness is a harness matter) ---------------- *)
\* the consumer talks to its producer only while it is registered and not after stopProducing [C, P].  porigin (detail
\* of PC_WriteWhilePaused) = where the pause in force came from, ":repaused" if it followed a resumeProducing within
\* one reactor turn
PCMove(S, e) ==
  LET S1 == [S EXCEPT !.calls = Append(@, e.origin)] IN     \* the calls of the consumer that have not returned yet
  IF S.reg # "yes" \/ S.stopped THEN PCHard(S, "harness_move_outside_registration")
  ELSE IF S.fired # "" THEN PCOk(S1)      \* the read is over but the producer never unregistered: not the consumer's fault
  ELSE IF e.ev = "Pause" THEN
         (IF ~S.streaming THEN PCHard(S, "harness_pause_of_pull_producer")
          ELSE PCOk([S1 EXCEPT !.paused = TRUE,
                               !.porigin = IF S.paused THEN S.porigin
                                           ELSE IF S.resumeT = e.t THEN e.origin \o ":repaused" ELSE e.origin]))
  ELSE IF e.ev = "Resume" THEN PCOk([S1 EXCEPT !.paused = FALSE, !.resumeT = e.t, !.resumes = @ + 1])
  ELSE PCOk([S1 EXCEPT !.stopped = TRUE])

\* a call of the producer returned; an exception other than the consumer's own one coming back through a pull
\* producer is the producer's fault
PCRet(S, e) ==
  LET n == Len(S.calls)
      S2 == [S EXCEPT !.calls = SubSeq(@, 1, n - 1)] IN
  IF n = 0 THEN PCHard(S, "harness_return_without_call")
  ELSE IF e.raised # "" /\ ~(e.raised = "ConsumerError" /\ S.broken)
         THEN PCSoft(S2, "PC_ProducerMethodRaised", e.m \o ":" \o S.calls[n])
  ELSE PCOk(S2)

PCRaise(S, e) == PCOk([S EXCEPT !.broken = TRUE])

\* the caller of read() cancelled the Deferred it got: that the Deferred fires (CancelledError) at once is the caller's
\* doing; the producer still has to unregister (End)
PCCancel(S, e) == PCOk([S EXCEPT !.cancelled = TRUE])

(* ---------------- quiescence ---------------- *)
\* hard part: [R, P] a read ends - after stopProducing, after an exception of the consumer, and whenever the consumer
\* does not hold it back (paused push producer / pull producer that is not asked)
PCEndHard(S, e) ==
  IF S.fired # "" THEN ""
  ELSE IF e.lost > 0 THEN ""
  ELSE IF S.stopped THEN "PC_StopResolves"
  ELSE IF S.broken THEN "PC_ConsumerErrorResolves"
  ELSE IF S.reg = "yes" /\ ((S.streaming /\ S.paused) \/ (~S.streaming /\ e.idle)) THEN ""
  ELSE "PC_ReadResolves"
\* soft part: [R] "fires when the consumer is unregistered", "I will call consumer.unregisterProducer() and then deliver
\* the exception"
PCEndSoft(S, e) ==
  IF S.fired # "" /\ S.reg = "yes" THEN [c |-> "PC_NeverUnregistered", d |-> PCCause(S)]
  ELSE IF S.firedReg THEN [c |-> "PC_FiredBeforeUnregister", d |-> PCCause(S)]
  ELSE [c |-> "", d |-> ""]

PCStep(S, e) ==
  CASE e.ev = "Register"   -> PCRegister(S, e)
    [] e.ev = "Write"      -> PCWrite(S, e)
    [] e.ev = "Unregister" -> PCUnregister(S, e)
    [] e.ev = "Fired"      -> PCFired(S, e)
    [] e.ev \in {"Pause", "Resume", "Stop"} -> PCMove(S, e)
    [] e.ev = "Ret"        -> PCRet(S, e)
    [] e.ev = "Raise"      -> PCRaise(S, e)
    [] e.ev = "Cancel"     -> PCCancel(S, e)
    [] e.ev = "ReadRaised" -> PCHard(S, "PC_ReadRaised")
    [] OTHER               -> PCHard(S, "unknown_event")
=============================================================================
