--------------------------- MODULE GenHappiness ---------------------------
(* GEN mode for C08: every relation between MaxSrv servers and MaxSh shares
   (rows may be empty, so all smaller relations are included), optionally
   modulo renaming of the servers (rows sorted), written with the Spec's
   happiness value to IOEnv.OUT_FILE.  The same set is the state space of a
   one-step machine; the invariants check the three definitions of the
   maximum matching against each other on every case. *)
EXTENDS Happiness, Json, IOUtils, SequencesExt

CONSTANTS MaxSrv, MaxSh, Canon, DefLimit

Pow2(n) == 2 ^ n
Bits(r) == {j \in 0..(MaxSh - 1) : (r \div Pow2(j)) % 2 = 1}
RowTuples == {r \in [1..MaxSrv -> 0..(Pow2(MaxSh) - 1)] : Canon => \A i \in 1..(MaxSrv - 1) : r[i] <= r[i + 1]}
AdjOf(r) == [i \in 1..MaxSrv |-> Bits(r[i])]

Cases == {[rows |-> AdjOf(r), mm |-> MaxMatchingRec(AdjOf(r))] : r \in RowTuples}

ASSUME ndJsonSerialize(IOEnv.OUT_FILE, SetToSeq(Cases))

VARIABLE c
Init == c \in Cases
Next == UNCHANGED c
Spec == Init /\ [][Next]_c

C08_AugAgrees == MaxMatchingAug(c.rows) = c.mm /\ MatchingAugOK(c.rows)
C08_DefAgrees == NumEdges(c.rows) <= DefLimit => MaxMatchingDef(c.rows) = c.mm
C08_Bounds == /\ c.mm <= Cardinality({s \in DOMAIN c.rows : c.rows[s] # {}})
              /\ c.mm <= Cardinality(AllShares(c.rows))
              /\ (c.mm = 0 <=> AllShares(c.rows) = {})
=============================================================================
