--------------------------- MODULE UploadProtocol ---------------------------
(* The server-selection conversation of an immutable upload
   (allmydata/immutable/upload.py: Tahoe2ServerSelector.get_shareholders,
   ServerTracker, CHKUploader.set_shareholders / _encrypted_done), as pure
   operators shared by the design model (MCUploadProtocol) and the trace
   verdicts (TraceUploadProtocol).  The storage side (final / incoming shares,
   allocate answers, close, abort) is UploadSelect's; the happiness number and
   the placement rules are Happiness'; the UEB arithmetic is Layout's.

   Sources of the rules (none of them is read off the implementation's data
   structures):
     docs/architecture.rst "Server Selection"   - the first 2*N servers of the
        permuted list are asked for existing shares; a share is sent to a
        server with an allocate_buckets() query; a share is not planned for
        two servers; a server that is unreachable / has an error / refuses is
        not asked again for new shares; the answer also tells which shares the
        server already has; at the end there is a table share -> server.
     docs/specifications/servers-of-happiness.rst "Calculating Share
        Placements" steps 0-10 - query all for existing shares, place, renew
        the existing shares the placement relies on (step 8), upload the rest
        (step 9), on a failed placement mark the server read-only and place
        again (step 10); the upload fails iff the happiness of the final
        layout is below H.
     interfaces.py RIStorageServer.allocate_buckets - "(alreadygot, allocated)
        ... New leases are added for shares in both lists";
        storage/server.py allocate_buckets - leases of *all* existing shares
        of the storage index are added or renewed.
     upload.py comments - "even read-only servers won't renew their shares
        until allocate_buckets is called", so every read-only server is sent
        an allocate_buckets in every round; ServerTracker.abort_some_buckets /
        Tahoe2ServerSelector._failed docstrings - buckets that are not going
        to be used are aborted "to conserve space on the storage server".
     interfaces.py IUploadResults - what the result object reports.
     happinessutil.failure_message comments - the three message classes. *)
EXTENDS UploadSelect, Layout

(* ---- vocabulary -------------------------------------------------------------- *)
PairsOn(f) == UNION {{s} \X f[s] : s \in DOMAIN f}          \* server -> shares, as a set of <<server, share>>
SharesOfPairs(P) == {p[2] : p \in P}
ServersOfPairs(P) == {p[1] : p \in P}
OnServer(P, s) == {p[2] : p \in {q \in P : q[1] = s}}
OneServerPerShare(P) == \A a, b \in P : a[2] = b[2] => a[1] = b[1]

(* ---- step 0/1: the survey ------------------------------------------------------ *)
\* the first 2*N servers of the permuted list (fewer if the grid is smaller)
SurveyTargets(order, n) == {order[i] : i \in 1..Min(2 * n, Len(order))}

(* ---- steps 2-7: the placement (Happiness.tla), partial when nothing is writable - *)
TotalPlans(W, R, shares, ex) == {m \in [shares -> W \cup R] : ReadOnlyRespected(m, R, ex)}
Plans(W, R, shares, ex) == IF W = {} THEN {<<>>} ELSE TotalPlans(W, R, shares, ex)
BestPlans(W, R, shares, ex) ==
  LET P == Plans(W, R, shares, ex)
      best == SetMax({Spread(m) : m \in P})
  IN {m \in P : Spread(m) = best}
AskedOf(m, s) == {sh \in DOMAIN m : m[sh] = s}
\* a tracker is sent allocate_buckets when the plan gives it a share it has not yet agreed to hold, and always when it is
\* read-only (the request renews the leases of the shares it has)
MustQuery(m, s, held, ro) == AskedOf(m, s) \ held # {} \/ s \in ro
\* buckets that the new plan gives to another server
UnusedBuckets(m, B) == {b \in B : b[2] \in DOMAIN m /\ m[b[2]] # b[1]}

(* ---- steps 9/10: answers ---------------------------------------------------------- *)
StillHomeless(asked, already, allocated) == (asked \ already) \ allocated
\* "a placement failed": the server is marked read-only and the shares are placed again
PlacementFailed(ok, asked, already, allocated) == ~ok \/ StillHomeless(asked, already, allocated) # {}
\* the weakest reading, used for recorded executions: an error, a timeout, or nothing accepted
PlacedNothing(ok, allocated) == ~ok \/ allocated = {}

(* ---- the decision ------------------------------------------------------------------ *)
EffectiveHappiness(existing, buckets) == HappinessOfPairs(existing \cup buckets)
MsgClass(peerCount, k, happy, eff) ==
  IF peerCount < k THEN "too_few_servers" ELSE IF eff < k THEN "not_spread" ELSE "happiness_short"

(* ---- the result object --------------------------------------------------------------- *)
UEBFieldsOK(u, size, k, n, maxseg) ==
  /\ u.size = size /\ u.needed_shares = k /\ u.total_shares = n
  /\ u.segment_size = SegSize(size, k, maxseg)
  /\ u.num_segments = EncNumSegments(size, SegSize(size, k, maxseg))
=============================================================================
