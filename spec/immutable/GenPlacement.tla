--------------------------- MODULE GenPlacement ---------------------------
(* GEN mode for C07: every layout (writable servers, read-only servers, share
   numbers, existing shares) of the shapes listed in Shapes, modulo renaming
   of the servers within their class (rows sorted), written with the Spec's
   optimum spread (closed form) to IOEnv.OUT_FILE.  As invariants over the
   same set TLC checks the closed form against the brute-force maximum over
   all valid placements wherever that is affordable. *)
EXTENDS Happiness, Json, IOUtils, SequencesExt

CONSTANTS Shapes,     \* set of shapes 10 * (number of servers) + (number of shares)
          BFLimit     \* brute force when (number of servers)^(number of shares) <= BFLimit

Pow2(n) == 2 ^ n
BitsN(r, n) == {j \in 0..(n - 1) : (r \div Pow2(j)) % 2 = 1}
Sorted(r, lo, hi) == \A i \in lo..(hi - 1) : r[i] <= r[i + 1]
\* rows 1..nw are the writable servers, nw+1..nsrv the read-only ones
RowTuples(nsrv, nw, n) == {r \in [1..nsrv -> 0..(Pow2(n) - 1)] : Sorted(r, 1, nw) /\ Sorted(r, nw + 1, nsrv)}

WName(i) == i            \* servers are numbered 1..nsrv inside the Spec; the driver names them
CaseOf(nsrv, nw, n, r) ==
  LET W == 1..nw
      R == (nw + 1)..nsrv
      ex == [i \in 1..nsrv |-> BitsN(r[i], n)]
  IN [nw |-> nw, nr |-> nsrv - nw, n |-> n, ex |-> ex, best |-> BestClosed(W, R, 0..(n - 1), ex)]

Cases == UNION {UNION {{CaseOf(sh \div 10, nw, sh % 10, r) : r \in RowTuples(sh \div 10, nw, sh % 10)} : nw \in 1..(sh \div 10)} : sh \in Shapes}

ASSUME ndJsonSerialize(IOEnv.OUT_FILE, SetToSeq(Cases))

VARIABLE c
Init == c \in Cases
Next == UNCHANGED c
Spec == Init /\ [][Next]_c

NSrv == c.nw + c.nr
C07_ClosedFormIsBest ==
  (NSrv ^ c.n <= BFLimit) => BestBF(1..c.nw, (c.nw + 1)..NSrv, 0..(c.n - 1), c.ex) = c.best
C07_BestBounds == c.best <= c.n /\ c.best <= NSrv /\ c.best >= Min(c.n, c.nw)
=============================================================================
