--------------------------- MODULE WritePipeline ---------------------------
(* The upload-side write path between the immutable encoder and one storage server, and the
   reader-side parsing of what was written:

     immutable/layout.py   _WriteBuffer, WriteBucketProxy, WriteBucketProxy_v2, ReadBucketProxy
     (util/pipeline.py `Pipeline` no longer exists in this tree: the capacity gauge was replaced by
      the batching `_WriteBuffer`; the rules below are the ones the present docstrings state.)

   Sources of the rules
     [L-cls]   WriteBucketProxy docstring: "The various put_ methods need to be called in the order in
               which the bytes will get written."
     [L-qw]    WriteBucketProxy._queue_write docstring: "This queues up small writes to be written in a
               single batched larger write.  Callers of this function are expected to queue the data in
               order, with no holes.  As such, the offset is technically unnecessary, but is used to
               check the inputs."
     [L-wb]    _WriteBuffer.queue_write docstring: "If the result is False, no further action is needed
               for now.  If the result is some True, it's time to call flush() and do a real write."
               flush: "Return offset and data to be written."
     [L-batch] comment in WriteBucketProxy.__init__: "With a ~1MB batch size, max upload speed is
               1MB/(round-trip latency) assuming the writing code waits for writes to finish"
     [L-close] WriteBucketProxy.close: the assertion total == allocated size; "No data queued, don't send
               empty string write."
     [L-lay]   the two layout comments at the top of layout.py (v1: 4-byte fields, data at 0x24;
               v2: 8-byte fields, data at 0x44; share hashes = 2-byte big-endian number + 32-byte hash;
               uri_extension = length field + data) and put_crypttext_hashes: "plaintext_hash_tree
               precedes crypttext_hash_tree.  It is not used ... fill it in with nulls."
     [I-w]     interfaces.IStorageBucketWriter: every put_* / close returns "a Deferred that fires (with
               None) when the operation completes"; close: "Finish writing and close the bucket.  The
               share is not finalized until this method is called".
     [I-rw]    interfaces.RIBucketWriter.close / abort; storage/immutable.py BucketWriter.write comment
               ("if we get an AlreadyCancelled error, that means there's a bug in the client and write()
               was called after close()"), ConflictingWriteError.
     [R]       ReadBucketProxy: docstrings of LayoutInvalid, ShareVersionIncompatible,
               RidiculouslyLargeURIExtensionBlock, _get_share_hashes, _get_uri_extension ("2000 or more
               must be corrupted").

   The offset table itself is Layout.tla's (EXTENDS, nothing copied). *)
EXTENDS Layout

(* ---- big-endian fields ----------------------------------------------------------------------*)
RECURSIVE BE(_, _)
BE(n, w) == IF w = 0 THEN <<>> ELSE BE(n \div 256, w - 1) \o <<n % 256>>
RECURSIVE UnBE(_)
UnBE(b) == IF Len(b) = 0 THEN 0 ELSE UnBE(SubSeq(b, 1, Len(b) - 1)) * 256 + b[Len(b)]
\* TLC integers are 32 bit: a field is decodable when everything above the low 31 bits is zero
Decodable(b) == /\ \A i \in 1..(Len(b) - 4) : b[i] = 0
                /\ Len(b) >= 4 => b[Len(b) - 3] < 128

(* ---- parameters of one share: p = [version, datasize, blocksize, numsegs, N, uebsize, batch] ----
   N only determines the number of share hashes stored in the share (NumShareHashes(N), the length of
   needed_hashes(0, include_leaf) that upload.py passes as num_share_hashes).                       *)
POff(p) == Offsets(p.version, p.datasize, p.numsegs, p.N)
PAlloc(p) == AllocatedSize(p.version, p.datasize, p.numsegs, p.N, p.uebsize)      \* get_allocated_size()
PSegHash(p) == SegmentHashSize(p.numsegs)
BlockLen(p, s) == IF s < p.numsegs - 1 THEN p.blocksize ELSE p.datasize - p.blocksize * (p.numsegs - 1)

HeaderBytes(p) ==                                                                   \* [L-lay]
  LET o == POff(p)
      w == FieldSize(p.version)
  IN BE(p.version, 4) \o BE(p.blocksize, w) \o BE(p.datasize, w) \o BE(o.data, w) \o BE(o.plaintext_hash_tree, w)
     \o BE(o.crypttext_hash_tree, w) \o BE(o.block_hashes, w) \o BE(o.share_hashes, w) \o BE(o.uri_extension, w)

(* ---- the fields in the order in which the bytes get written [L-cls] ------------------------------
   index 1 header, 2..numsegs+1 the blocks, then crypttext hashes (preceded by the unused
   plaintext-hash-tree region, filled with nulls), block hashes, share hashes, URI extension.       *)
NumFields(p) == p.numsegs + 5
FieldName(p, i) == IF i = 1 THEN "header"
                   ELSE IF i <= p.numsegs + 1 THEN "block"
                   ELSE <<"crypttext", "blockhashes", "sharehashes", "ueb">>[i - p.numsegs - 1]
FieldSeg(p, i) == IF FieldName(p, i) = "block" THEN i - 2 ELSE 0
FieldOff(p, i) ==
  LET o == POff(p) nm == FieldName(p, i) IN
  CASE nm = "header" -> 0
    [] nm = "block" -> o.data + (i - 2) * p.blocksize
    [] nm = "crypttext" -> o.plaintext_hash_tree
    [] nm = "blockhashes" -> o.block_hashes
    [] nm = "sharehashes" -> o.share_hashes
    [] nm = "ueb" -> o.uri_extension
FieldLen(p, i) ==                                   \* bytes the field occupies in the share
  LET nm == FieldName(p, i) IN
  CASE nm = "header" -> HeaderSize(p.version)
    [] nm = "block" -> BlockLen(p, i - 2)
    [] nm = "crypttext" -> 2 * PSegHash(p)
    [] nm = "blockhashes" -> PSegHash(p)
    [] nm = "sharehashes" -> ShareHashTreeSize(p.N)
    [] nm = "ueb" -> FieldSize(p.version) + p.uebsize
\* lemma: the fields tile the share without holes and end at the allocated size
FieldsTile(p) == /\ FieldOff(p, 1) = 0
                 /\ \A i \in 1..(NumFields(p) - 1) : FieldOff(p, i) + FieldLen(p, i) = FieldOff(p, i + 1)
                 /\ FieldOff(p, NumFields(p)) + FieldLen(p, NumFields(p)) = PAlloc(p)

(* ---- one put_* call: put = [field, seg, data, pairs] ------------------------------------------
   data = the bytes handed over (blocks, joined hashes, URI extension), pairs = the (number, hash)
   list of put_share_hashes as records [n, h].                                                     *)
RECURSIVE PackPairs(_)
PackPairs(ps) == IF Len(ps) = 0 THEN <<>> ELSE BE(ps[1].n, 2) \o ps[1].h \o PackPairs(Tail(ps))

\* is the call the i-th one of the order, with the size the layout prescribes?
PutOK(p, i, put) ==
  /\ i <= NumFields(p)
  /\ put.field = FieldName(p, i)
  /\ put.field = "block" => put.seg = FieldSeg(p, i) /\ Len(put.data) = BlockLen(p, put.seg)
  /\ put.field \in {"crypttext", "blockhashes"} => Len(put.data) = PSegHash(p)
  /\ put.field = "sharehashes" => /\ Len(put.pairs) = NumShareHashes(p.N)
                                  /\ \A j \in 1..Len(put.pairs) : Len(put.pairs[j].h) = HashSize /\ put.pairs[j].n < 65536
  /\ put.field = "ueb" => Len(put.data) = p.uebsize

\* the bytes the call contributes to the share [L-lay]
Wire(p, put) ==
  CASE put.field = "header" -> HeaderBytes(p)
    [] put.field = "crypttext" -> Zeros(PSegHash(p)) \o put.data
    [] put.field = "sharehashes" -> PackPairs(put.pairs)
    [] put.field = "ueb" -> BE(Len(put.data), FieldSize(p.version)) \o put.data
    [] OTHER -> put.data

(* ---- _WriteBuffer, shaped like the code [L-wb] ------------------------------------------------- *)
WB0 == [queued |-> <<>>, written |-> 0]
WBTotal(B) == B.written + Len(B.queued)                       \* get_total_bytes
WBQueue(B, data) == [B EXCEPT !.queued = @ \o data]            \* queue_write ...
WBFull(B, batch) == Len(B.queued) >= batch                     \* ... and its answer
WBCall(B) == [off |-> B.written, data |-> B.queued]            \* flush(): what is written
WBFlush(B) == [queued |-> <<>>, written |-> B.written + Len(B.queued)]

(* ---- the server end of the conversation (storage/immutable.py BucketWriter) [I-rw] ------------
   img = share data (gaps read as zeros), cov = the byte ranges written so far as half-open intervals
   [a, b) (not merged), st in open / final / gone                                                   *)
Srv0 == [img |-> <<>>, cov |-> {}, st |-> "open"]
\* an overlapping write must repeat the bytes already there (ConflictingWriteError otherwise)
SrvConflict(s, off, data) ==
  \E iv \in s.cov : LET lo == Max(iv.a, off)
                        hi == Min(iv.b, off + Len(data))
                    IN lo < hi /\ SubSeq(s.img, lo + 1, hi) # SubSeq(data, lo - off + 1, hi - off)
SrvWriteRes(s, off, data, alloc) ==
  IF s.st # "open" THEN "err"                                  \* write after close / abort
  ELSE IF off + Len(data) > alloc THEN "err"                   \* DataTooLargeError
  ELSE IF SrvConflict(s, off, data) THEN "err"                 \* ConflictingWriteError
  ELSE "ok"
SrvWrite(s, off, data) == [s EXCEPT !.img = WriteAt(@, off, data), !.cov = @ \cup {[a |-> off, b |-> off + Len(data)]}]
SrvCloseRes(s) == IF s.st = "open" THEN "ok" ELSE "err"
SrvClose(s) == [s EXCEPT !.st = "final"]
SrvAbort(s) == IF s.st = "open" THEN [s EXCEPT !.st = "gone"] ELSE s      \* abort of a closed bucket: no-op
\* every position of [0, alloc) lies in some interval: position 0 and the end of every interval are covered
SrvComplete(s, alloc) == \A x \in {0} \cup {iv.b : iv \in s.cov} : x < alloc => \E iv \in s.cov : iv.a <= x /\ x < iv.b

(* ---- ReadBucketProxy over a share image [R] ------------------------------------------------------
   Every getter first fetches 0x44 bytes and parses the offset table (RParse).  Answers are records
   [st, data]: st = "ok" or the name of the documented error class ("error" = any other exception,
   "undecodable" = a header field beyond TLC's integers: not judged).                               *)
Ans(st, data) == [st |-> st, data |-> data]
RParse(img) ==
  LET hd == ReadAt(img, 0, 68) IN
  IF Len(hd) < 4 THEN [st |-> "error"]                                              \* precondition
  ELSE LET vb == SubSeq(hd, 1, 4) IN
       IF ~Decodable(vb) THEN [st |-> "ShareVersionIncompatible"]
       ELSE LET v == UnBE(vb) IN
            IF v \notin {1, 2} THEN [st |-> "ShareVersionIncompatible"]
            ELSE IF Len(hd) < HeaderSize(v) THEN [st |-> "error"]                   \* precondition
            ELSE LET w == FieldSize(v)
                     base == IF v = 1 THEN 12 ELSE 20                               \* the six offsets start at 0x0c / 0x14
                     ob(j) == SubSeq(hd, base + (j - 1) * w + 1, base + j * w)
                 IN IF \E j \in 1..6 : ~Decodable(ob(j)) THEN [st |-> "undecodable"]
                    ELSE [st |-> "ok", version |-> v, w |-> w,
                          o |-> [data |-> UnBE(ob(1)), plaintext_hash_tree |-> UnBE(ob(2)), crypttext_hash_tree |-> UnBE(ob(3)),
                                 block_hashes |-> UnBE(ob(4)), share_hashes |-> UnBE(ob(5)), uri_extension |-> UnBE(ob(6))]]

RGetBlock(img, blocknum, blocksize, thissize) ==
  LET h == RParse(img) IN
  IF h.st # "ok" THEN Ans(h.st, <<>>) ELSE Ans("ok", ReadAt(img, h.o.data + blocknum * blocksize, thissize))
RGetCrypttextHashes(img) ==
  LET h == RParse(img) IN
  IF h.st # "ok" THEN Ans(h.st, <<>>) ELSE Ans("ok", ReadAt(img, h.o.crypttext_hash_tree, h.o.block_hashes - h.o.crypttext_hash_tree))
RGetBlockHashes(img) ==
  LET h == RParse(img) IN
  IF h.st # "ok" THEN Ans(h.st, <<>>) ELSE Ans("ok", ReadAt(img, h.o.block_hashes, h.o.share_hashes - h.o.block_hashes))
\* "share hash tree corrupted -- should occupy a multiple of 34 bytes" / "got a short read"
RGetShareHashes(img) ==
  LET h == RParse(img) IN
  IF h.st # "ok" THEN Ans(h.st, <<>>)
  ELSE LET size == h.o.uri_extension - h.o.share_hashes
           d == ReadAt(img, h.o.share_hashes, size)
       IN IF size < 0 THEN Ans("undecodable", <<>>)                       \* a negative read size: not judged
          ELSE IF size % (2 + HashSize) # 0 THEN Ans("LayoutInvalid", <<>>)
          ELSE IF Len(d) # size THEN Ans("LayoutInvalid", <<>>)
          ELSE Ans("ok", d)
\* "not enough bytes to encode URI length" / "2000 or more must be corrupted"
RGetUEB(img) ==
  LET h == RParse(img) IN
  IF h.st # "ok" THEN Ans(h.st, <<>>)
  ELSE LET lb == ReadAt(img, h.o.uri_extension, h.w) IN
       IF Len(lb) # h.w THEN Ans("LayoutInvalid", <<>>)
       ELSE IF ~Decodable(lb) THEN Ans("RidiculouslyLargeURIExtensionBlock", <<>>)
       ELSE IF UnBE(lb) >= 2000 THEN Ans("RidiculouslyLargeURIExtensionBlock", <<>>)
       ELSE Ans("ok", ReadAt(img, h.o.uri_extension + h.w, UnBE(lb)))
ROffsets(img) == RParse(img).o
=============================================================================
