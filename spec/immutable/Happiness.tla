----------------------------- MODULE Happiness -----------------------------
(* Servers-of-happiness (C08) and share placement (C07), as pure operators.

   A layout is a function  adj : Servers -> SUBSET Shares  ("server s holds /
   is to hold share t").  The happiness value is the size of a maximum
   matching of the bipartite graph {<<s, t>> : t \in adj[s]}.

   Three definitions of that number are given and TLC checks them equal on
   every small layout (GenHappiness.tla):
     MaxMatchingDef  - the definition: the largest matching among all subsets
                       of the edge set (only usable up to ~12 edges);
     MaxMatchingRec  - branching on one server: unmatched, or matched to one of
                       its shares (brute force, fine up to ~5 x 5);
     MaxMatchingAug  - augmenting paths (Kuhn), used for the large seeded
                       layouts validated in TRACE mode.

   A placement is a function  m : Shares -> Servers.  For writable servers W,
   read-only servers R and existing shares  ex : (W \cup R) -> SUBSET Shares
   it is valid when it is total on the share numbers and a read-only server
   only gets shares it already holds; its spread is the number of distinct
   servers used.  BestBF is the maximum spread over all valid placements,
   BestClosed the closed form  Min(|shares|, MaxMatching(ex restricted to R)
   + |W|)  which TLC checks against BestBF on small layouts. *)
EXTENDS Common

AllShares(adj) == UNION {adj[x] : x \in DOMAIN adj}
Edges(adj) == {e \in (DOMAIN adj) \X AllShares(adj) : e[2] \in adj[e[1]]}

IsMatching(M) == \A e, f \in M : e # f => (e[1] # f[1] /\ e[2] # f[2])

\* the definition
MaxMatchingDef(adj) ==
  SetMax({Cardinality(M) : M \in {X \in SUBSET Edges(adj) : IsMatching(X)}})

\* brute force by branching on one server
RECURSIVE MMRec(_, _, _)
MMRec(adj, servers, usedShares) ==
  IF servers = {} THEN 0
  ELSE LET s == CHOOSE x \in servers : TRUE
           rest == servers \ {s}
           skip == MMRec(adj, rest, usedShares)
           take == {1 + MMRec(adj, rest, usedShares \cup {t}) : t \in adj[s] \ usedShares}
       IN SetMax({skip} \cup take)
MaxMatchingRec(adj) == MMRec(adj, DOMAIN adj, {})

\* augmenting paths (Kuhn's algorithm).  M : matched share -> server.
RECURSIVE AugFrom(_, _, _, _), AugOver(_, _, _, _, _)
AugFrom(adj, s, M, vis) == AugOver(adj, s, adj[s] \ vis, M, vis)
AugOver(adj, s, cand, M, vis) ==
  IF cand = {} THEN [found |-> FALSE, M |-> M, vis |-> vis]
  ELSE LET t == CHOOSE x \in cand : TRUE
           vis2 == vis \cup {t}
       IN IF t \notin DOMAIN M
            THEN [found |-> TRUE, M |-> (t :> s) @@ M, vis |-> vis2]
            ELSE LET r == AugFrom(adj, M[t], M, vis2)
                 IN IF r.found
                      THEN [found |-> TRUE, M |-> (t :> s) @@ r.M, vis |-> r.vis]
                      ELSE AugOver(adj, s, (cand \ {t}) \ r.vis, M, r.vis)

RECURSIVE KuhnLoop(_, _, _)
KuhnLoop(adj, todo, M) ==
  IF todo = {} THEN M
  ELSE LET s == CHOOSE x \in todo : TRUE
           r == AugFrom(adj, s, M, {})
       IN KuhnLoop(adj, todo \ {s}, IF r.found THEN r.M ELSE M)

MatchingAug(adj) == KuhnLoop(adj, DOMAIN adj, <<>>)
MaxMatchingAug(adj) == Cardinality(DOMAIN MatchingAug(adj))
\* the matching found really is one (checked as a table invariant)
MatchingAugOK(adj) ==
  LET M == MatchingAug(adj) IN
  /\ \A t \in DOMAIN M : M[t] \in DOMAIN adj /\ t \in adj[M[t]]
  /\ \A t, u \in DOMAIN M : t # u => M[t] # M[u]

NumEdges(adj) == SumOver([s \in DOMAIN adj |-> Cardinality(adj[s])], DOMAIN adj)
MaxMatching(adj) ==
  IF Cardinality(DOMAIN adj) <= 5 /\ NumEdges(adj) <= 25 THEN MaxMatchingRec(adj) ELSE MaxMatchingAug(adj)

\* the sharemap form used by the code: share -> set of servers
Invert(sharemap) ==
  LET srv == UNION {sharemap[t] : t \in DOMAIN sharemap}
  IN [s \in srv |-> {t \in DOMAIN sharemap : s \in sharemap[t]}]
Happiness(sharemap) == MaxMatching(Invert(sharemap))

(* ------------------------------ placement -------------------------------- *)
Complete(m, shares) == DOMAIN m = shares
OnKnownServers(m, W, R) == \A sh \in DOMAIN m : m[sh] \in W \cup R
ReadOnlyRespected(m, R, ex) == \A sh \in DOMAIN m : m[sh] \in R => sh \in ex[m[sh]]
ValidPlacement(m, W, R, shares, ex) ==
  /\ Complete(m, shares) /\ OnKnownServers(m, W, R) /\ ReadOnlyRespected(m, R, ex)
Spread(m) == Cardinality(Range(m))

BestBF(W, R, shares, ex) ==
  SetMax({Spread(m) : m \in {f \in [shares -> W \cup R] : ValidPlacement(f, W, R, shares, ex)}})
ROAdj(R, shares, ex) == [r \in R |-> ex[r] \cap shares]
BestClosed(W, R, shares, ex) ==
  Min(Cardinality(shares), MaxMatching(ROAdj(R, shares, ex)) + Cardinality(W))
=============================================================================
