-------------------------- MODULE EncoderProtocol --------------------------
(* The immutable upload encoder (allmydata/immutable/encode.py, class Encoder)
   as a protocol towards its share writers (IStorageBucketWriter) and its
   source of ciphertext (IEncryptedUploadable): pure operators shared by the
   design model (MCEncoderProtocol) and the trace verdicts
   (TraceEncoderProtocol).  Segment / block / UEB arithmetic is Layout's, the
   symbolic file, its pieces and the abstract erasure code are Codec's, Merkle
   trees are HashTree's, the happiness number is Happiness' - nothing is
   copied from them.

   Sources of the rules (none is read off the Encoder's data structures):
     encode.py module docstring - "Only one segment is handled at a time: all
        blocks for segment A are delivered before any work is begun on
        segment B"; one block of every segment goes to every shareholder; "the
        complete block hash tree is sent to the shareholder after all the data
        has been sent"; "After sending the blocks and the complete block hash
        tree to each shareholder, we send them the portion of the share hash
        tree that is necessary to validate their share"; comment in start():
        "These calls have to happen in order; layout.py now requires writes
        to be appended to the data written so far"; send_all_share_hash_trees:
        "This includes the share hash itself, but does not include the
        top-level hash root"; err(): "we need to abort any remaining
        shareholders, so they'll delete the partial share"; abort(): the next
        segment read raises UploadAborted, "If we've sent the final segment's
        shares, it's too late to abort" (_gather_data checks before and after the read).
     docs/specifications/file-encoding.rst - ciphertext is cut into segments,
        each erasure-coded into blocks, one block of each segment per share;
        block hash tree per share over its blocks; share hash tree over the
        block root hashes, its root in the UEB; flat hash and Merkle tree of
        the ciphertext in the UEB together with the file size and the
        encoding parameters; "During upload, all blocks are sent first,
        followed by the block hash tree, followed by the share hash chain";
        the cap carries k, N, the size and the UEB hash.
     interfaces.py - IStorageBucketWriter (put_block .. close: "The share is
        not finalized until this method is called"; put_uri_extension: "All
        buckets for a given file contain identical copies of this data", the
        serialization), IEncoder (set_shareholders: shareholders share number
        -> writer, servermap share number -> set of peerids; start: fires
        with a verify cap; get_param 'share_size' = "aggregate amount of data
        that will be sent to the shareholder, summed over all the put_block()
        calls", 'block_size'), IEncryptedUploadable.read_encrypted,
        UploadUnhappinessError.
     docs/specifications/servers-of-happiness.rst - the upload is successful
        iff the happiness of the final layout is at least H.

   A configuration c is a record
     [size, k, n, seg, happy, writers (set of share numbers that have a
      writer), peer (writer -> server id), smap0 (share number -> non-empty
      set of server ids: the servermap handed to set_shareholders, which also
      lists servers that already hold a share)].
   The protocol state E is a record, see EPInit.  *)
EXTENDS Layout, HashTree, Happiness

Cd == INSTANCE Codec

(* ---- the calls a writer sees, as numbered phases ----------------------------- *)
NumSegs(c) == EncNumSegments(c.size, c.seg)
PHeader      == 1
PSeg(s)      == 2 + s
PCth(ns)     == ns + 2
PBht(ns)     == ns + 3
PSht(ns)     == ns + 4
PUeb(ns)     == ns + 5
PClose(ns)   == ns + 6
LastPhase(ns) == PClose(ns)
IsSegPhase(p, ns) == p >= 2 /\ p <= ns + 1
NoSeg == -1

PhaseOf(m, seg, ns) ==
  CASE m = "put_header"           -> PHeader
    [] m = "put_block"            -> IF seg >= 0 /\ seg < ns THEN PSeg(seg) ELSE 0
    [] m = "put_crypttext_hashes" -> PCth(ns)
    [] m = "put_block_hashes"     -> PBht(ns)
    [] m = "put_share_hashes"     -> PSht(ns)
    [] m = "put_uri_extension"    -> PUeb(ns)
    [] m = "close"                -> PClose(ns)
    [] OTHER                      -> 0
CallOfPhase(p, ns) ==
  IF p = PHeader THEN [m |-> "put_header", seg |-> NoSeg]
  ELSE IF IsSegPhase(p, ns) THEN [m |-> "put_block", seg |-> p - 2]
  ELSE IF p = PCth(ns) THEN [m |-> "put_crypttext_hashes", seg |-> NoSeg]
  ELSE IF p = PBht(ns) THEN [m |-> "put_block_hashes", seg |-> NoSeg]
  ELSE IF p = PSht(ns) THEN [m |-> "put_share_hashes", seg |-> NoSeg]
  ELSE IF p = PUeb(ns) THEN [m |-> "put_uri_extension", seg |-> NoSeg]
  ELSE [m |-> "close", seg |-> NoSeg]
\* everything a writer that is never dropped is told, in order
FullSequence(ns) == [p \in 1..LastPhase(ns) |-> CallOfPhase(p, ns)]
AbortCall == [m |-> "abort", seg |-> NoSeg]

(* ---- the servermap and the happiness decision (_remove_shareholder) ------------ *)
RemovePeer(smap, w, p) ==
  IF w \notin DOMAIN smap THEN smap
  ELSE IF smap[w] \ {p} = {} THEN [t \in (DOMAIN smap) \ {w} |-> smap[t]]
  ELSE [smap EXCEPT ![w] = @ \ {p}]
\* the servermap after the writers in D were lost
RECURSIVE SmapWithout(_, _, _)
SmapWithout(smap, peer, D) ==
  IF D = {} THEN smap
  ELSE LET w == CHOOSE x \in D : TRUE IN SmapWithout(RemovePeer(smap, w, peer[w]), peer, D \ {w})
StillHappy(c, smap) == Happiness(smap) >= c.happy

(* ---- the protocol state ----------------------------------------------------------- *)
EPInit(c) ==
  [ph |-> 0,                    \* current phase (0 = not started)
   live |-> c.writers,          \* writers the encoder still talks to
   called |-> {},               \* writers that got the call of the current phase
   out |-> {},                  \* writers whose call has not been answered yet
   smap |-> c.smap0,
   dropped |-> {}, aborted |-> {}, closed |-> {},
   doomed |-> FALSE,            \* a loss brought the happiness below the threshold
   nread |-> 0,                 \* read_encrypted calls made (one per segment)
   rdone |-> 0,                 \* ... answered
   uabort |-> "no",             \* Encoder.abort(): "no" | "early" (the read of a segment was still to complete) | "late"
   cancelled |-> FALSE,         \* abort() arrived while a read was unanswered: that segment is not sent any more
   uclosed |-> FALSE,
   res |-> "none", placed |-> {}]

Reading(E) == E.rdone < E.nread
PhaseDone(E) == E.out = {} /\ E.live \subseteq E.called /\ ~Reading(E)
StepReadDone(E) == [E EXCEPT !.rdone = @ + 1]
StepStart(E) == [E EXCEPT !.ph = 1]
StepAdvance(E, ns) ==
  LET p == E.ph + 1 IN
  [E EXCEPT !.ph = p, !.called = {},
            !.nread = IF IsSegPhase(p, ns) THEN @ + 1 ELSE @]
StepCall(E, w) == [E EXCEPT !.called = @ \cup {w}, !.out = @ \cup {w}]
StepRetOk(E, w, isClose) ==
  [E EXCEPT !.out = @ \ {w}, !.closed = IF isClose /\ w \in E.live THEN @ \cup {w} ELSE @]
StepDrop(E, c, w) ==
  LET sm == RemovePeer(E.smap, w, c.peer[w]) IN
  [E EXCEPT !.live = @ \ {w}, !.dropped = @ \cup {w}, !.smap = sm,
            !.doomed = @ \/ ~StillHappy(c, sm)]
StepRetFail(E, c, w) ==
  LET E1 == [E EXCEPT !.out = @ \ {w}] IN IF w \in E.live THEN StepDrop(E1, c, w) ELSE E1
StepAbortCall(E, w) == [E EXCEPT !.aborted = @ \cup {w}]
StepUserAbort(E, ns) ==
  IF E.uabort # "no" THEN E
  ELSE [E EXCEPT !.uabort = IF E.rdone < ns THEN "early" ELSE "late", !.cancelled = Reading(E)]
StepResult(E, kind) == [E EXCEPT !.res = kind, !.placed = IF kind = "success" THEN E.live ELSE {}]

\* may the encoder go on to phase E.ph + 1 ?  ("" = yes, otherwise the rule that forbids it)
AdvanceBlockedBy(E, ns) ==
  IF E.res # "none" THEN "XE_NoCallAfterResult"
  ELSE IF E.out # {} \/ Reading(E) THEN "XE_OnePhaseAtATime"
  ELSE IF ~(E.live \subseteq E.called) THEN "XE_EveryWriterEveryCall"
  ELSE IF E.doomed THEN "XE_NoNewPhaseAfterUnhappy"
  ELSE IF IsSegPhase(E.ph + 1, ns) /\ E.uabort = "early" THEN "XE_AbortStopsReading"
  ELSE ""

\* the state after the encoder moved on to phase q >= E.ph; phases without a segment read can only be passed over
\* silently when there is nobody left to call
RECURSIVE Forward(_, _, _)
Forward(E, q, ns) ==
  IF E.ph = q THEN [why |-> "", E |-> E]
  ELSE IF E.ph > q THEN [why |-> "XE_CallOrder", E |-> E]
  ELSE IF E.ph >= 1 /\ AdvanceBlockedBy(E, ns) # "" THEN [why |-> AdvanceBlockedBy(E, ns), E |-> E]
  ELSE IF E.ph + 1 < q /\ (E.live # {} \/ IsSegPhase(E.ph + 1, ns)) THEN [why |-> "XE_CallOrder", E |-> E]
  ELSE Forward(IF E.ph = 0 THEN StepStart(E) ELSE StepAdvance(E, ns), q, ns)

(* ---- what every call carries ----------------------------------------------------------
   Hashes are HashTree terms over base terms
     <<"B", s, i>>  block_hash of block i of segment s,
     <<"C", s>>     crypttext_segment_hash of (unpadded) segment s,
     <<"H">>        the flat hash of the whole ciphertext,
     PadH(i), NodeH(a, b), ForgedH(j) as in HashTree.
   The erasure code is opaque (Codec.tla), so two different blocks may happen
   to have the same bytes; canon maps a block to the representative of its
   class of equal byte strings (the identity when all blocks differ). *)
BlockTerm(canon, s, i) ==
  IF (s + 1) \in DOMAIN canon /\ (i + 1) \in DOMAIN canon[s + 1]
    THEN <<"B", canon[s + 1][i + 1][1], canon[s + 1][i + 1][2]>>
    ELSE <<"B", s, i>>
CtTerm(s) == <<"C", s>>
FlatTerm == <<"H">>

\* a tree term with its leaves LeafH(x) replaced by lf[x]
RECURSIVE Subst(_, _)
Subst(t, lf) == IF t[1] = "L" THEN lf[t[2]]
                ELSE IF t[1] = "N" THEN NodeH(Subst(t[2], lf), Subst(t[3], lf))
                ELSE t
TreeOver(n, lf) == [j \in Nodes(n) |-> Subst(Genuine(n, j), lf)]

CtLeaves(ns) == [s \in 0..(ns - 1) |-> CtTerm(s)]
BlockLeaves(canon, ns, i) == [s \in 0..(ns - 1) |-> BlockTerm(canon, s, i)]
\* the crypttext hash tree (the same for everybody), the block hash tree of share i
CtTree(ns) == TreeOver(ns, CtLeaves(ns))
BlockTree(canon, ns, i) == TreeOver(ns, BlockLeaves(canon, ns, i))
BlockRoot(canon, ns, i) == BlockTree(canon, ns, i)[0]
\* the share hash tree: "Its leaves are the block root hashes from each share"
ShareTree(canon, ns, n) == TreeOver(n, [i \in 0..(n - 1) |-> BlockRoot(canon, ns, i)])
\* "the portion of the share hash tree that is necessary to validate their share", own leaf included, root excluded
ShareChainNodes(n, i) == NeededComplete(n, i, TRUE)

\* put_block(s) to writer w: its own block of segment s.  Codec.tla: block i < k is piece i of the zero-padded segment
ExpectedBlock(c, s, w) == Cd!Encode(Cd!SegPieces(c.size, c.seg, c.k, s), c.k, c.n)[w]
BlockLenOf(c, s) == Cd!SegBlockSize(c.size, c.seg, c.k, s)
RECURSIVE SumBlockLens(_, _)
SumBlockLens(c, s) == IF s < 0 THEN 0 ELSE BlockLenOf(c, s) + SumBlockLens(c, s - 1)

\* the URI extension block (uri.pack_extension of Encoder.uri_extension_data)
UEBKeys == {"codec_name", "codec_params", "tail_codec_params", "size", "segment_size", "num_segments",
            "needed_shares", "total_shares", "crypttext_hash", "crypttext_root_hash", "share_root_hash"}
ExpectedUEB(c, canon) ==
  LET ns == NumSegs(c) IN
  [codec_name |-> "crs",
   codec_params |-> <<c.seg, c.k, c.n>>,
   tail_codec_params |-> <<EncTailPadded(c.size, c.k, c.seg), c.k, c.n>>,
   size |-> c.size, segment_size |-> c.seg, num_segments |-> ns,
   needed_shares |-> c.k, total_shares |-> c.n,
   crypttext_hash |-> FlatTerm,
   crypttext_root_hash |-> CtTree(ns)[0],
   share_root_hash |-> ShareTree(canon, ns, c.n)[0]]
\* read_encrypted of segment s: k blocks' worth, the (shorter) tail included
ExpectedReadLen(c, s) == EncReadSize(c.size, c.k, c.seg, s)
ExpectedReadGot(c, s) == EncAvail(c.size, c.seg, s)

(* ---- lemmas about the contents (checked by MCEncoderProtocol for its constants) ------ *)
\* a downloader that trusts only the share root hash can validate share i with exactly the chain sent to writer i
\* (IncompleteHashTree.set_hashes as specified by HashTree.SetHashes), and with nothing less
IdTree(n) == [j \in Nodes(n) |-> Genuine(n, j)]
ChainSuffices(n, i) ==
  LET chain == [j \in ShareChainNodes(n, i) |-> Genuine(n, j)]
      r == SetHashes(n, RootOnly(n), chain, <<>>)
  IN /\ r.res = {"ok"}
     /\ r.tree[FirstLeaf(n) + i] = LeafH(i)
     /\ \A x \in ShareChainNodes(n, i) :
          LET less == [j \in ShareChainNodes(n, i) \ {x} |-> Genuine(n, j)]
              r2 == SetHashes(n, RootOnly(n), less, <<>>)
          IN x # 0 => (r2.res # {"ok"} \/ r2.tree[FirstLeaf(n) + i] = None)
ContentLemmas(c) ==
  LET ns == NumSegs(c) IN
  /\ \A i \in 0..(c.n - 1) : 0 \notin ShareChainNodes(c.n, i) \/ c.n = 1
  /\ \A i \in 0..(c.n - 1) : (FirstLeaf(c.n) + i) \in ShareChainNodes(c.n, i)
  /\ \A i \in 0..(c.n - 1) : Cardinality(ShareChainNodes(c.n, i)) = NumShareHashes(c.n)      \* Layout's share_hashes region
  /\ \A i \in 0..(c.n - 1) : ChainSuffices(c.n, i)
  /\ Size(ns) * HashSize = SegmentHashSize(ns)                                                \* Layout's hash tree regions
  /\ SumBlockLens(c, ns - 1) = EncShareDataSize(c.size, c.k)                                  \* 'share_size'
  /\ \A s \in 0..(ns - 1) : /\ ExpectedReadLen(c, s) = c.k * BlockLenOf(c, s)
                            /\ ExpectedReadGot(c, s) = Cd!SegLen(c.size, c.seg, s)
                            /\ \A w \in 0..(c.n - 1) : ExpectedBlock(c, s, w).id = w
=============================================================================
