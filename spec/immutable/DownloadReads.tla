--------------------------- MODULE DownloadReads ---------------------------
(* The read path of an immutable file node above the segment fetcher:

     immutable/filenode.py            ImmutableFileNode.read, DecryptingConsumer.__init__ (CTR position)
     immutable/downloader/node.py     DownloadNode.read / get_segment / _start_new_segment /
                                      process_blocks._deliver / fetch_failed / _deliver /
                                      _extract_requests / _cancel_request
     immutable/downloader/segmentation.py   Segmentation (one per read): _maybe_fetch_next, _fetch_next,
                                      _got_segment, _retry_bad_segment, pause/resume/stopProducing
     immutable/literal.py             LiteralFileNode.read

   Deterministic operators over an explicit node state S (one operator per critical
   section of the code); MCDownloadReads builds the actions from them and the trace
   verdicts (TraceImmutableReads) use the reader-level ones.  A file is a record
   F = [fsize, segsize, guess]: guess is the segment size the node assumes before it
   has seen the UEB (DownloadNode._build_guessed_tables).

   S = [known   : the node knows the real segment size (a share's UEB was validated)
        reqs    : _segment_requests, a sequence of [seg, r]
        active  : segnum of _active_segment or NoSeg
        evq     : foolscap eventual-send queue (FIFO) restricted to this node's entries
        cact    : readers whose Cancel handle has .active = True
        rd      : reader -> Segmentation state ]

   A Segmentation has at most one outstanding segment request (it asks for the next
   one only after _request_retired), and a reader whose request was cancelled never
   asks again, so the Cancel handle of a request is identified by its reader. *)
EXTENDS Layout

Unlimited == -1      \* size=None
NoSeg == -1

(* ---- reader-level arithmetic -------------------------------------------------- *)
\* DownloadNode.read: clip at EOF, never negative
ClipSize(fsize, off, size) == Max(0, Min(IF size = Unlimited THEN fsize ELSE size, fsize - off))
\* Segmentation._fetch_next
WantedSeg(off, segsize) == IF off = 0 THEN 0 ELSE off \div segsize
\* util/spans.py overlap()
Overlap(s0, l0, s1, l1) ==
  LET left == Max(s0, s1)
      right == Min(s0 + l0, s1 + l1)
  IN [some |-> left < right, start |-> left, len |-> right - left]
\* the piece a reader at position pos (wanting [pos, end)) takes from the segment that contains pos
NextPieceLen(fsize, segsize, pos, end) ==
  LET s == WantedSeg(pos, segsize)
  IN Min(SegStart(segsize, s) + SegLen(fsize, segsize, s), end) - pos
\* DecryptingConsumer.__init__: counter block offset // 16, then offset % 16 bytes of keystream are skipped
CtrStart(off) == 16 * (off \div 16) + (off % 16)
\* LiteralFileNode.read: data[offset:offset+size] / data[offset:], one FileSender chunk if not empty
LitSlice(fsize, off, size) ==
  LET lo == Min(off, fsize)
      hi == IF size = Unlimited THEN fsize ELSE Min(off + size, fsize)
  IN [lo |-> lo, hi |-> Max(lo, hi)]

(* ---- node state ------------------------------------------------------------------ *)
NewReader == [st |-> "new", off |-> 0, size |-> 0, hungry |-> FALSE, alive |-> FALSE, aseg |-> NoSeg,
              retry |-> FALSE, out |-> <<>>, off0 |-> 0, end0 |-> 0, ks |-> 0]

InitNode(Readers) == [known |-> FALSE, reqs |-> <<>>, active |-> NoSeg, evq |-> <<>>, cact |-> {},
                      rd |-> [r \in Readers |-> NewReader]]

NumSegs(F) == DlNumSegments(F.fsize, F.segsize)

\* DownloadNode._start_new_segment
StartNewSegment(S) ==
  IF S.active = NoSeg /\ S.reqs # <<>> THEN [S EXCEPT !.active = Head(S.reqs).seg] ELSE S

\* Segmentation._maybe_fetch_next + _fetch_next + DownloadNode.get_segment
FetchNext(F, S, r) ==
  LET R == S.rd[r] IN
  IF ~R.alive \/ ~R.hungry \/ R.aseg # NoSeg THEN S
  ELSE IF R.size = 0
    THEN [S EXCEPT !.rd[r].alive = FALSE, !.rd[r].hungry = FALSE, !.rd[r].st = "done"]
    ELSE LET w == WantedSeg(R.off, IF S.known THEN F.segsize ELSE F.guess)
         IN StartNewSegment([S EXCEPT !.rd[r].aseg = w, !.rd[r].retry = ~S.known,
                                      !.reqs = Append(@, [seg |-> w, r |-> r]),
                                      !.cact = @ \cup {r}])

\* ImmutableFileNode.read + DownloadNode.read + Segmentation.start (the consumer is hungry from the start)
Read(F, S, r, off, size) ==
  LET c == ClipSize(F.fsize, off, size) IN
  IF c = 0
    THEN [S EXCEPT !.rd[r] = [NewReader EXCEPT !.st = "done", !.off = off, !.off0 = off, !.end0 = off, !.ks = CtrStart(off)]]
    ELSE FetchNext(F, [S EXCEPT !.rd[r] = [NewReader EXCEPT !.st = "run", !.off = off, !.size = c, !.hungry = TRUE,
                                                           !.alive = TRUE, !.off0 = off, !.end0 = off + c,
                                                           !.ks = CtrStart(off)]], r)

\* DownloadNode._extract_requests + eventually(self._deliver, d, c, result) for each retired request
Retire(S, seg, res) ==
  LET M == SelectSeq(S.reqs, LAMBDA q : q.seg = seg) IN
  [S EXCEPT !.reqs = SelectSeq(S.reqs, LAMBDA q : q.seg # seg),
            !.evq = @ \o [i \in 1..Len(M) |-> [kind |-> "deliver", r |-> M[i].r, seg |-> seg, res |-> res]]]

\* a share's UEB is validated while the first segment is being fetched
CanLearnUEB(S) == S.active # NoSeg /\ ~S.known
LearnUEB(S) == [S EXCEPT !.known = TRUE]

\* SegmentFetcher done -> DownloadNode.process_blocks._deliver (success branch)
CanSegmentArrive(F, S) == S.active # NoSeg /\ S.known /\ S.active < NumSegs(F)
SegmentArrives(S) == StartNewSegment([Retire(S, S.active, "seg") EXCEPT !.active = NoSeg])

\* SegmentFetcher._do_loop: segnum beyond the end -> DownloadNode.fetch_failed(BadSegmentNumberError)
CanBadSegment(F, S) == S.active # NoSeg /\ S.known /\ S.active >= NumSegs(F)
BadSegment(S) == StartNewSegment([Retire(S, S.active, "badseg") EXCEPT !.active = NoSeg])

\* DownloadNode._cancel_request
CancelRequest(S, r) ==
  LET reqs2 == SelectSeq(S.reqs, LAMBDA q : q.r # r)
      segs == {reqs2[i].seg : i \in 1..Len(reqs2)}
      S1 == [S EXCEPT !.reqs = reqs2]
  IN IF S.active # NoSeg /\ S.active \notin segs THEN StartNewSegment([S1 EXCEPT !.active = NoSeg]) ELSE S1

\* consumer -> producer calls
PauseR(S, r) == [S EXCEPT !.rd[r].hungry = FALSE]
ResumeR(S, r) == [S EXCEPT !.rd[r].hungry = TRUE,
                           !.evq = Append(@, [kind |-> "resume", r |-> r, seg |-> 0, res |-> ""])]
StopR(S, r) ==
  LET S1 == [S EXCEPT !.rd[r].hungry = FALSE, !.rd[r].alive = FALSE, !.rd[r].st = "stopped"]
  IN IF r \notin S.cact THEN S1                       \* no outstanding request (stop inside write())
     ELSE CancelRequest([S1 EXCEPT !.cact = @ \ {r}], r)

ErrorR(S, r) == [S EXCEPT !.rd[r].hungry = FALSE, !.rd[r].alive = FALSE, !.rd[r].st = "error"]
\* Segmentation._retry_bad_segment is only attached when the segment size was a guess at request time
RetryOrError(F, S, r) == IF S.rd[r].retry THEN FetchNext(F, [S EXCEPT !.rd[r].retry = FALSE], r) ELSE ErrorR(S, r)

\* Segmentation._got_segment; `inwrite` is what the consumer does inside write(): "cont" | "pause" | "stop"
GotSegment(F, S, r, seg, inwrite) ==
  LET R == S.rd[r]
      o == Overlap(SegStart(F.segsize, seg), SegLen(F.fsize, F.segsize, seg), R.off, R.size)
  IN IF ~o.some \/ o.start # R.off THEN RetryOrError(F, S, r)
     ELSE LET S1 == [S EXCEPT !.rd[r].off = @ + o.len, !.rd[r].size = @ - o.len, !.rd[r].ks = @ + o.len,
                              !.rd[r].out = Append(@, [lo |-> o.start, hi |-> o.start + o.len, ks |-> R.ks])]
              S2 == CASE inwrite = "pause" -> PauseR(S1, r)
                      [] inwrite = "stop" -> StopR(S1, r)
                      [] OTHER -> S1
          IN FetchNext(F, S2, r)

\* one turn of the eventual queue: DownloadNode._deliver (+ Segmentation._request_retired, _got_segment) or
\* the _maybe_fetch_next scheduled by resumeProducing
RunEventual(F, S, inwrite) ==
  LET e == Head(S.evq)
      S1 == [S EXCEPT !.evq = Tail(@)]
  IN IF e.kind = "resume" THEN FetchNext(F, S1, e.r)
     ELSE IF e.r \notin S1.cact THEN S1                       \* cancelled between retirement and delivery
     ELSE LET S2 == [S1 EXCEPT !.cact = @ \ {e.r}, !.rd[e.r].aseg = NoSeg]
          IN IF e.res = "seg" THEN GotSegment(F, S2, e.r, e.seg, inwrite) ELSE RetryOrError(F, S2, e.r)
\* does the head of the queue write to a consumer (so that the consumer's reaction is a choice)?
HeadWrites(S) == S.evq # <<>> /\ Head(S.evq).kind = "deliver" /\ Head(S.evq).r \in S.cact /\ Head(S.evq).res = "seg"

NodeBusy(F, S) == S.evq # <<>> \/ S.active # NoSeg
=============================================================================
