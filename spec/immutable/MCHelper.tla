------------------------------ MODULE MCHelper ------------------------------
(* Exhaustive model checking of Helper.tla (C44): ciphertext of Size bytes fetched
   in chunks of Chunk bytes, an interruption after any helper->client call
   (get_size, every read_encrypted, get_all_encoding_parameters), up to
   MaxInterrupts interrupted uploads, resumed uploads, repeated uploads (already
   present), loss of shares between uploads, grids that already hold shares. *)
EXTENDS Helper

CONSTANTS Size, Chunk, N, ResumeAt, MaxInterrupts, MaxUploads

C == [Size |-> Size, Chunk |-> Chunk, N |-> N, ResumeAt |-> ResumeAt]

VARIABLES H, nint, nup
vars == <<H, nint, nup>>

Init == /\ \E pre \in SUBSET Shn(C) : H = InitH(C, pre)
        /\ nint = 0 /\ nup = 0

Idle == H.mode \in {"idle", "present", "interrupted", "done"}

StartA ==
  /\ Idle /\ nup < MaxUploads
  /\ nup' = nup + 1 /\ UNCHANGED nint
  /\ H' = IF StartRes(C, H) = "present" THEN AlreadyPresent(C, H) ELSE Start(C, H)

SizeA == /\ H.sess.active /\ ~H.sess.sized /\ NeedsFetch(H)
         /\ H' = GotSize(C, H) /\ UNCHANGED <<nint, nup>>
FetchA == /\ CanFetch(C, H) /\ ClientCanServe(H, FetchReq(C, H).offset)
          /\ H' = Fetch(C, H) /\ UNCHANGED <<nint, nup>>
DoneA == /\ FetchComplete(C, H)
         /\ H' = FetchDone(C, H) /\ UNCHANGED <<nint, nup>>
EncodeA == /\ CanEncode(H)
           /\ H' = EncodePush(C, H) /\ UNCHANGED <<nint, nup>>
InterruptA == /\ H.sess.active /\ nint < MaxInterrupts
              /\ H' = Interrupt(H) /\ nint' = nint + 1 /\ UNCHANGED nup
LoseA == /\ Idle /\ H.mode \in {"done", "present"}
         /\ \E keep \in SUBSET Shn(C) : keep # Shn(C) /\ H' = LoseShares(C, H, keep)
         /\ UNCHANGED <<nint, nup>>

Next == StartA \/ SizeA \/ FetchA \/ DoneA \/ EncodeA \/ InterruptA \/ LoseA
Spec == Init /\ [][Next]_vars

(* ---- properties: the direct upload's cap is Ct(C), its shares are made from Ct(C) ---- *)
C44_CapEqual == H.result.present => H.result.data = Ct(C)
C44_SharesEqual == \A n \in Shn(C) : H.grid[n].present => H.grid[n].data = Ct(C)
\* the persisted incoming file is always a prefix of the ciphertext; the encoding file is the ciphertext
C44_IncomingIsPrefix == /\ H.inc.present => IsPrefixOf(H.inc.data, Ct(C))
                        /\ H.enc.present => H.enc.data = Ct(C)
\* a resumed upload continues at the persisted length: every byte is fetched once
C44_NoRefetch == H.fetched = (IF H.enc.present THEN Len(H.enc.data) ELSE IF H.inc.present THEN Len(H.inc.data) ELSE 0)
\* the client can always serve the request (the reader never has to seek backwards)
C44_ReaderForward == CanFetch(C, H) => ClientCanServe(H, FetchReq(C, H).offset)
\* an already-present file is reported without pushing anything, with the same cap
C44_AlreadyPresentNoPush == [][H'.mode = "present" /\ H.mode # "present" => H'.pushes = H.pushes /\ H'.result.data = Ct(C) /\ H'.grid = H.grid]_vars
\* a completed upload leaves all N shares and no ciphertext file behind
C44_Complete == H.mode = "done" => PresentShares(C, H) = Shn(C) /\ ~H.inc.present /\ ~H.enc.present
=============================================================================
