------------------------------- MODULE Layout -------------------------------
(* Segment / tail / padding / block arithmetic of immutable (CHK) files and the
   share offset table, written the way the code computes them:

     upload.py   BaseUploadable.get_all_encoding_parameters   -> SegSize
     encode.py   Encoder._got_all_encoding_parameters          -> Enc* (uploader side)
     codec.py    CRSEncoder.set_params                         -> CodecBlockSize
     layout.py   WriteBucketProxy.__init__/_create_offsets     -> Offsets, AllocatedSize
     uri.py      pack_extension                                -> UEBSize
     downloader/node.py DownloadNode._calculate_sizes          -> Dl* (downloader side,
                                        from the cap's size/k and the UEB's segment_size)

   The two sides are written separately on purpose: that they agree is a lemma
   (LayoutLemmas), not a definition.  All operators are constant-level so that
   the same definitions serve the model checker (MCImmutableFile), the case
   generator (GenLayout) and the trace verdicts (TraceImmutableReads). *)
EXTENDS Common

LitThreshold == 55                 \* Uploader.URI_LIT_SIZE_THRESHOLD
IsLit(size) == size <= LitThreshold
HashSize == 32                     \* interfaces.HASH_SIZE

(* ---- upload.py: segment size actually used -------------------------------- *)
SegSize(size, k, maxseg) == NextMultiple(Min(maxseg, size), k)

(* ---- codec.py ---------------------------------------------------------------*)
CodecBlockSize(datasize, k) == DivCeil(datasize, k)

(* ---- encode.py: Encoder._got_all_encoding_parameters ------------------------*)
EncNumSegments(size, segsize) == DivCeil(size, segsize)
EncTailSize(size, segsize) == IF size % segsize = 0 THEN segsize ELSE size % segsize
EncTailPadded(size, k, segsize) == NextMultiple(EncTailSize(size, segsize), k)
EncShareDataSize(size, k) == DivCeil(size, k)            \* Encoder._get_share_size
EncBlockSize(k, segsize) == CodecBlockSize(segsize, k)   \* codec.get_block_size()
EncTailBlockSize(size, k, segsize) == CodecBlockSize(EncTailPadded(size, k, segsize), k)

\* _gather_data: how many ciphertext bytes segment segnum reads, and how many zero bytes are appended
EncReadSize(size, k, segsize, segnum) ==
  IF segnum = EncNumSegments(size, segsize) - 1 THEN k * EncTailBlockSize(size, k, segsize)
                                                ELSE k * EncBlockSize(k, segsize)
EncAvail(size, segsize, segnum) == Max(0, Min(size - segnum * segsize, segsize))  \* bytes left for this segment

(* ---- downloader/node.py: DownloadNode._calculate_sizes ----------------------*)
DlTailSize(size, segsize) == IF size % segsize = 0 THEN segsize ELSE size % segsize
DlTailPadded(size, k, segsize) == NextMultiple(DlTailSize(size, segsize), k)
DlNumSegments(size, segsize) == DivCeil(size, segsize)
DlBlockSize(k, segsize) == segsize \div k
DlTailBlockSize(size, k, segsize) == DlTailPadded(size, k, segsize) \div k
DlSizes(size, k, segsize) ==
  [tail_segment_size |-> DlTailSize(size, segsize), tail_segment_padded |-> DlTailPadded(size, k, segsize),
   num_segments |-> DlNumSegments(size, segsize), block_size |-> DlBlockSize(k, segsize),
   tail_block_size |-> DlTailBlockSize(size, k, segsize)]
\* DownloadNode._build_guessed_tables with the node's default maximum segment size
GuessedSegSize(size, k, defaultmax) == NextMultiple(Min(size, defaultmax), k)

\* plaintext interval of segment s (0-based, half open), as delivered by _decode_blocks after trimming
SegStart(segsize, s) == s * segsize
SegLen(size, segsize, s) == IF s = DlNumSegments(size, segsize) - 1 THEN DlTailSize(size, segsize) ELSE segsize

(* ---- uri.py pack_extension: length of the URI extension block --------------- *)
RECURSIVE Digits(_)
Digits(n) == IF n < 10 THEN 1 ELSE 1 + Digits(n \div 10)
NetstringLen(n) == Digits(n) + 1 + n + 1                 \* "%d:%s,"
CodecParamsLen(datasize, k, N) == Digits(datasize) + 1 + Digits(k) + 1 + Digits(N)   \* b"%d-%d-%d"
\* key lengths include the ':' separator
UEBSize(size, k, N, segsize) ==
    (11 + NetstringLen(3))                                           \* codec_name:crs
  + (13 + NetstringLen(CodecParamsLen(segsize, k, N)))               \* codec_params
  + (15 + NetstringLen(HashSize))                                    \* crypttext_hash
  + (20 + NetstringLen(HashSize))                                    \* crypttext_root_hash
  + (14 + NetstringLen(Digits(k)))                                   \* needed_shares
  + (13 + NetstringLen(Digits(EncNumSegments(size, segsize))))       \* num_segments
  + (13 + NetstringLen(Digits(segsize)))                             \* segment_size
  + (16 + NetstringLen(HashSize))                                    \* share_root_hash
  + (5  + NetstringLen(Digits(size)))                                \* size
  + (18 + NetstringLen(CodecParamsLen(EncTailPadded(size, k, segsize), k, N)))  \* tail_codec_params
  + (13 + NetstringLen(Digits(N)))                                   \* total_shares

(* ---- layout.py: WriteBucketProxy ----------------------------------------------*)
RECURSIVE Log2(_)
Log2(n) == IF n <= 1 THEN 0 ELSE 1 + Log2(n \div 2)
\* len(IncompleteHashTree(N).needed_hashes(0, include_leaf=True))  (upload.py get_shareholders)
NumShareHashes(N) == Log2(NextPow2(N)) + 1
SegmentHashSize(numsegs) == (2 * NextPow2(numsegs) - 1) * HashSize
ShareHashTreeSize(N) == NumShareHashes(N) * (2 + HashSize)
HeaderSize(version) == IF version = 1 THEN 36 ELSE 68        \* 0x24 / 0x44
FieldSize(version) == IF version = 1 THEN 4 ELSE 8

Offsets(version, datasize, numsegs, N) ==
  LET d == HeaderSize(version)
      p == d + datasize
      c == p + SegmentHashSize(numsegs)
      b == c + SegmentHashSize(numsegs)
      s == b + SegmentHashSize(numsegs)
      u == s + ShareHashTreeSize(N)
  IN [data |-> d, plaintext_hash_tree |-> p, crypttext_hash_tree |-> c, block_hashes |-> b,
      share_hashes |-> s, uri_extension |-> u]

AllocatedSize(version, datasize, numsegs, N, uebsize) ==
  Offsets(version, datasize, numsegs, N).uri_extension + FieldSize(version) + uebsize

(* ---- everything the uploader commits to, for one file --------------------------*)
Derived(size, k, N, maxseg, version) ==
  LET seg == SegSize(size, k, maxseg)
      ns == EncNumSegments(size, seg)
      ds == EncShareDataSize(size, k)
      ueb == UEBSize(size, k, N, seg)
  IN [segment_size |-> seg, num_segments |-> ns, tail_size |-> EncTailSize(size, seg),
      tail_padded |-> EncTailPadded(size, k, seg), block_size |-> EncBlockSize(k, seg),
      tail_block_size |-> EncTailBlockSize(size, k, seg), share_data_size |-> ds,
      ueb_size |-> ueb, offsets |-> Offsets(version, ds, ns, N),
      allocated |-> AllocatedSize(version, ds, ns, N, ueb)]

(* ---- lemmas (checked as invariants over every enumerated tuple) ------------------*)
RECURSIVE SumSegLens(_, _, _)
SumSegLens(size, segsize, s) == IF s < 0 THEN 0 ELSE SegLen(size, segsize, s) + SumSegLens(size, segsize, s - 1)

LayoutLemmas(size, k, N, maxseg, version) ==
  LET seg == SegSize(size, k, maxseg)
      ns == EncNumSegments(size, seg)
      tail == EncTailSize(size, seg)
      tp == EncTailPadded(size, k, seg)
      bs == EncBlockSize(k, seg)
      tb == EncTailBlockSize(size, k, seg)
      ds == EncShareDataSize(size, k)
      o == Offsets(version, ds, ns, N)
  IN /\ seg >= 1 /\ seg % k = 0 /\ seg < Min(maxseg, size) + k             \* the encoder's assert
     /\ ns >= 1
     /\ (ns - 1) * seg + tail = size                                        \* segment lengths sum to the size
     /\ SumSegLens(size, seg, ns - 1) = size
     /\ 1 <= tail /\ tail <= seg
     /\ tp % k = 0 /\ tail <= tp /\ tp < tail + k /\ tp <= seg              \* tail padding: fewer than k zero bytes
     /\ bs * k = seg /\ tb * k = tp
     /\ (ns - 1) * bs + tb = ds                                             \* put_block precondition on the last block
     \* both sides derive the same numbers
     /\ DlSizes(size, k, seg) = [tail_segment_size |-> tail, tail_segment_padded |-> tp, num_segments |-> ns,
                                 block_size |-> bs, tail_block_size |-> tb]
     \* every non-tail segment is read in full, the tail read is padded by exactly tp - tail bytes
     /\ \A s \in 0..(ns - 1) : /\ EncReadSize(size, k, seg, s) = IF s = ns - 1 THEN tp ELSE seg
                               /\ EncAvail(size, seg, s) = SegLen(size, seg, s)
     \* offset table strictly increasing, data region holds exactly the blocks, allocated size is the end
     /\ o.data = HeaderSize(version)
     /\ o.data < o.plaintext_hash_tree /\ o.plaintext_hash_tree < o.crypttext_hash_tree
     /\ o.crypttext_hash_tree < o.block_hashes /\ o.block_hashes < o.share_hashes
     /\ o.share_hashes < o.uri_extension
     /\ o.plaintext_hash_tree - o.data = (ns - 1) * bs + tb
     /\ (o.uri_extension - o.share_hashes) % (2 + HashSize) = 0            \* ReadBucketProxy._get_share_hashes
     /\ AllocatedSize(version, ds, ns, N, UEBSize(size, k, N, seg)) = o.uri_extension + FieldSize(version) + UEBSize(size, k, N, seg)
     \* every block read of the downloader lies inside the data region
     /\ \A s \in 0..(ns - 1) :
          LET len == IF s = ns - 1 THEN DlTailBlockSize(size, k, seg) ELSE DlBlockSize(k, seg)
          IN o.data + s * DlBlockSize(k, seg) + len <= o.plaintext_hash_tree
=============================================================================
