---------------------------- MODULE CheckRepair ----------------------------
(* Immutable check, verify and repair (C45).

   Code: immutable/checker.py (Checker, ValidatedExtendedURIProxy,
   ValidatedReadBucketProxy), immutable/repairer.py (Repairer = a CHKUploader
   fed with ciphertext downloaded through the verify-cap, happy = 0),
   immutable/filenode.py (CiphertextFileNode.check / check_and_repair /
   _gather_repair_results), immutable/layout.py (ReadBucketProxy).

   State: a layout  L[server][shnum]  of share files.  A share file is
   Missing or present with the set `dmg` of its damaged sections:
     version, offsets                     the header words the readers use
     data, crypttext_hash_tree, block_hashes, share_hashes, uri_extension
     ignored          header words / regions no reader uses (block size, data size,
                      plaintext hash tree offset and region)
     foreign_blocks   data blocks AND block hash tree replaced by those of another
                      share of the same file: self-consistent, but not this share's.
   Values are symbolic: "g" genuine, "x" arbitrary wrong bytes, "f" the foreign
   (self-consistent) pair.  Operators take the encoding record c = [K, N, Servers]
   so that the same definitions serve MC and trace validation. *)
EXTENDS Common

VFields == {"version", "offsets", "data", "crypttext_hash_tree", "block_hashes", "share_hashes", "uri_extension"}
DamageKinds == VFields \cup {"ignored", "foreign_blocks"}

Missing == [present |-> FALSE, dmg |-> {}]
Share(d) == [present |-> TRUE, dmg |-> d]
GenuineShare == Share({})

Shnums(c) == 0..(c.N - 1)
Positions(c) == c.Servers \X Shnums(c)
At(L, p) == L[p[1]][p[2]]
ShnumsOf(P) == {p[2] : p \in P}
ServersOf(P) == {p[1] : p \in P}

(* ---- what a reader gets when it fetches section f of share sh ------------- *)
Val(sh, f) ==
  IF f \in sh.dmg THEN "x"
  ELSE IF f \in {"data", "block_hashes"} /\ "foreign_blocks" \in sh.dmg THEN "f"
  ELSE "g"

(* ---- the verifier: Checker._download_and_verify, in the code's order ------
   checkRoot = TRUE is the Spec: the root of the block hash tree is the leaf of
   the share hash tree (which is validated against UEB.share_root_hash, which is
   validated against the capability).  checkRoot = FALSE describes a verifier
   that accepts whatever root the share itself supplies (used by the MC module
   to show that C45_GoodOnlyIfValid notices the difference). *)
BlockTreeOK(sh, checkRoot) ==
  /\ Val(sh, "block_hashes") \in {"g", "f"}                    \* every node hashes to its parent
  /\ checkRoot => Val(sh, "block_hashes") = "g"                \* root = this share's leaf of the share hash tree
BlocksOK(sh) ==
  /\ Val(sh, "data") \in {"g", "f"}
  /\ Val(sh, "data") = Val(sh, "block_hashes")                 \* every block hashes to its leaf

VerifyShareX(sh, checkRoot) ==
  IF Val(sh, "version") # "g" THEN "incompatible"              \* ReadBucketProxy._parse_offsets: ShareVersionIncompatible
  ELSE IF Val(sh, "offsets") # "g" THEN "corrupt"              \* a section is fetched from the wrong place; its validation fails
  ELSE IF Val(sh, "uri_extension") # "g" THEN "corrupt"        \* ValidatedExtendedURIProxy._check_integrity (cap.uri_extension_hash)
  ELSE IF Val(sh, "share_hashes") # "g" THEN "corrupt"         \* get_all_sharehashes (UEB.share_root_hash)
  ELSE IF ~BlockTreeOK(sh, checkRoot) THEN "corrupt"           \* get_all_blockhashes
  ELSE IF Val(sh, "crypttext_hash_tree") # "g" THEN "corrupt"  \* get_all_crypttext_hashes (UEB.crypttext_root_hash)
  ELSE IF ~BlocksOK(sh) THEN "corrupt"                         \* get_block for every block
  ELSE "good"

VerifyShare(sh) == VerifyShareX(sh, TRUE)

(* ---- Checker.start + _format_results ------------------------------------- *)
\* verify = FALSE: the server's get_buckets answer is believed
StatusX(L, p, verify, checkRoot) ==
  IF ~At(L, p).present THEN "missing"
  ELSE IF verify THEN VerifyShareX(At(L, p), checkRoot)
  ELSE "good"

CheckResX(c, L, verify, checkRoot) ==
  LET gp  == {p \in Positions(c) : StatusX(L, p, verify, checkRoot) = "good"}
      cnt == Cardinality(ShnumsOf(gp))
  IN [healthy |-> cnt = c.N, recoverable |-> cnt >= c.K, good |-> cnt,
      hosts |-> Cardinality(ServersOf(gp)), needed |-> c.K, expected |-> c.N,
      sharemap |-> gp,
      corrupt |-> {p \in Positions(c) : StatusX(L, p, verify, checkRoot) = "corrupt"},
      incompatible |-> {p \in Positions(c) : StatusX(L, p, verify, checkRoot) = "incompatible"}]

CheckRes(c, L, verify) == CheckResX(c, L, verify, TRUE)

(* ---- the downloader (used by the repairer and by readers) -----------------
   It validates every block it uses: block -> leaf of the block hash tree -> root =
   leaf of the share hash tree -> UEB.share_root_hash -> capability, so a share
   whose blocks it uses has genuine data.  It fetches only the hash nodes it
   needs (not, e.g., the stored root of a block hash tree), and takes UEB and
   ciphertext hashes from any share, so a share the verifier calls corrupt may
   still serve blocks; a share the verifier calls good always can. *)
DlMustServe(sh) == sh.present /\ VerifyShare(sh) = "good"
DlMayServe(sh) == sh.present /\ Val(sh, "version") = "g" /\ Val(sh, "data") = "g"
\* The real downloader works block by block: a share with one flipped data byte still serves its other
\* blocks, so k shares none of which is entirely valid can together yield every segment.  The MC model
\* treats a damaged data section as unusable as a whole (DlMayServe); trace validation only requires that
\* a successful repair had k share numbers that could serve at least some block (DlMayServeSome).
DlMayServeSome(sh) == sh.present /\ Val(sh, "version") = "g" /\ "foreign_blocks" \notin sh.dmg
MayReadSome(c, L) == Cardinality(ShnumsOf({p \in Positions(c) : DlMayServeSome(At(L, p))})) >= c.K
MustRead(c, L) == Cardinality(ShnumsOf({p \in Positions(c) : DlMustServe(At(L, p))})) >= c.K
MayRead(c, L)  == Cardinality(ShnumsOf({p \in Positions(c) : DlMayServe(At(L, p))})) >= c.K
\* answers a read may give: never wrong bytes
ReadOutcomes(c, L) == (IF MayRead(c, L) THEN {"ok"} ELSE {}) \cup (IF MustRead(c, L) THEN {} ELSE {"fail"})

(* ---- repair: Repairer.start -> CHKUploader with happy = 0 -----------------
   The uploader asks every server which shares it has and believes the answer
   (a damaged file counts as present and is never overwritten); every share
   number that is on no server is pushed to exactly one server; further copies
   of share numbers that exist elsewhere may be pushed (the placement maximises
   the spread).  The pushed shares are encoded from downloaded, validated
   ciphertext. *)
Absent(c, L) == {n \in Shnums(c) : \A s \in c.Servers : ~L[s][n].present}
Free(c, L) == {p \in Positions(c) : ~At(L, p).present}
PlacementOK(c, L, new) ==
  /\ new \subseteq Free(c, L)                                   \* never over an existing file
  /\ \A p \in new, q \in new : p[2] = q[2] => p = q            \* one bucket per share number
  /\ Absent(c, L) \subseteq ShnumsOf(new)                      \* complete
Placements(c, L) == {new \in SUBSET Free(c, L) : PlacementOK(c, L, new)}

\* the share the repairer writes: encoded from k shares the downloader accepted
EncodedFrom(src) == IF \A sh \in src : Val(sh, "data") = "g" THEN GenuineShare ELSE Share({"data"})
AfterRepair(c, L, new, newshare) ==
  [s \in c.Servers |-> [n \in Shnums(c) |-> IF <<s, n>> \in new THEN newshare ELSE L[s][n]]]

\* CiphertextFileNode._maybe_repair / _gather_repair_results
RepairResX(c, L, verify, new, checkRoot) ==
  LET pre == CheckResX(c, L, verify, checkRoot)
      sm  == pre.sharemap \cup new
      cnt == Cardinality(ShnumsOf(sm))
      post == [healthy |-> cnt = c.N, recoverable |-> cnt >= c.K, good |-> cnt,
               hosts |-> Cardinality(ServersOf(sm)), needed |-> c.K, expected |-> c.N,
               sharemap |-> sm, corrupt |-> pre.corrupt, incompatible |-> pre.incompatible]
  IN IF pre.healthy
       THEN [attempted |-> FALSE, successful |-> FALSE, pre |-> pre, post |-> pre]
       ELSE [attempted |-> TRUE, successful |-> post.healthy, pre |-> pre, post |-> post]
RepairRes(c, L, verify, new) == RepairResX(c, L, verify, new, TRUE)

\* the sets of k shares (distinct numbers) the repairer's download may have decoded from
Sources(c, L) ==
  {P \in SUBSET {p \in Positions(c) : DlMayServe(At(L, p))} :
      Cardinality(P) = c.K /\ Cardinality(ShnumsOf(P)) = c.K}

(* ---- ground truth, stated without the verifier's chain -------------------- *)
\* every block and every hash of the share is the one the capability commits to
AllValid(sh) == sh.present /\ sh.dmg \cap (VFields \cup {"foreign_blocks"}) = {}
ValidShnums(c, L) == {n \in Shnums(c) : \E s \in c.Servers : AllValid(L[s][n])}
PresentShnums(c, L) == {n \in Shnums(c) : \E s \in c.Servers : L[s][n].present}
=============================================================================
