-------------------------- MODULE MCImmutableFile --------------------------
(* Round trip of one immutable file at the level of byte positions, built from the
   arithmetic of Layout.tla and the range trimming of DownloadReads.tla:

     Encoder loop (encode.py start/_encode_segment/_gather_data/_send_segment,
                   layout.py put_block: sequential writes, block-length preconditions)
     any order of block responses from the shares of the current segment
     DownloadNode._decode_blocks (tail codec, trimming of the padding)
     Segmentation._fetch_next / _got_segment (range trimming)

   The plaintext is the interval of positions 0..size-1; a byte of tail padding is
   the token Pad.  Encoded blocks carry no data: a block of share sh for segment s
   is the token sequence <<sh,s,1>>, <<sh,s,2>>, ... and decoding any k well-formed
   blocks of the SAME segment and of the expected length gives back what the encoder
   fed to the codec for that segment (the k-of-N contract, property C36).  Any
   violated assertion / precondition of the code moves to phase "error". *)
EXTENDS DownloadReads

CONSTANTS Sizes, Ks, ExtraN, MaxSegs,   \* parameter space: N = k + extra
          PartialReads                   \* TRUE: also reads of sub-ranges; FALSE: whole file only

Pad == -1
VARIABLES p,          \* [size, k, N, maxseg] chosen in Init
          phase,      \* "encode" | "download" | "done" | "error"
          seg,        \* encoder: next segment to encode
          fed,        \* ghost: segnum -> what was fed to the codec (positions and Pad)
          shares,     \* share number -> data region of the share (sequence of block tokens)
          rd,         \* the read: [off0, size0, off, size] (remaining range)
          fetch,      \* segment being fetched or NoSeg
          got,        \* share number -> block received for the segment being fetched
          delivered   \* positions written to the consumer, in order
vars == <<p, phase, seg, fed, shares, rd, fetch, got, delivered>>

SegSz == SegSize(p.size, p.k, p.maxseg)
NSegs == EncNumSegments(p.size, SegSz)
ShareNums == 0..(p.N - 1)

Params == {[size |-> s, k |-> k, N |-> k + e, maxseg |-> m] : s \in Sizes, k \in Ks, e \in ExtraN, m \in MaxSegs}

Init == /\ p \in Params
        /\ phase = "encode" /\ seg = 0 /\ fed = <<>>
        /\ shares = [sh \in 0..(p.N - 1) |-> <<>>]
        /\ rd = [off0 |-> 0, size0 |-> 0, off |-> 0, size |-> 0]
        /\ fetch = NoSeg /\ got = <<>> /\ delivered = <<>>

(* ---- upload -------------------------------------------------------------------- *)
\* _gather_data for segment seg: read_size bytes are requested, the tail may be short and is zero-padded
Gathered ==
  LET want == EncReadSize(p.size, p.k, SegSz, seg)
      have == Min(want, Max(0, p.size - seg * SegSz))
  IN [want |-> want, have |-> have,
      data |-> [i \in 1..want |-> IF i <= have THEN seg * SegSz + i - 1 ELSE Pad]]
BlockTokens(sh, s, len) == [j \in 1..len |-> <<sh, s, j>>]

EncodeSegment ==
  /\ phase = "encode" /\ seg < NSegs
  /\ LET tail == (seg = NSegs - 1)
         g == Gathered
         blen == IF tail THEN EncTailBlockSize(p.size, p.k, SegSz) ELSE EncBlockSize(p.k, SegSz)
         \* _gather_data: precondition(len(data) == read_size) unless allow_short
         gatherOK == tail \/ g.have = g.want
         \* put_block: offset must continue the bytes written so far; length preconditions
         putOK == \A sh \in ShareNums :
                    /\ seg * EncBlockSize(p.k, SegSz) = Len(shares[sh])
                    /\ IF seg < NSegs - 1 THEN blen = EncBlockSize(p.k, SegSz)
                       ELSE blen = EncShareDataSize(p.size, p.k) - EncBlockSize(p.k, SegSz) * (NSegs - 1)
     IN IF gatherOK /\ putOK
          THEN /\ fed' = Append(fed, g.data)
               /\ shares' = [sh \in ShareNums |-> shares[sh] \o BlockTokens(sh, seg, blen)]
               /\ seg' = seg + 1 /\ UNCHANGED phase
          ELSE /\ phase' = "error" /\ UNCHANGED <<fed, shares, seg>>
  /\ UNCHANGED <<p, rd, fetch, got, delivered>>

\* close(): assert total bytes == allocated size (here: the data region is complete), then the read starts
ReadChoices == IF PartialReads
                 THEN {[off |-> o, size |-> z] : o \in 0..(p.size + 1), z \in {0, 1, 2, p.size, Unlimited}}
                 ELSE {[off |-> 0, size |-> Unlimited], [off |-> 0, size |-> p.size]}
FinishUpload ==
  /\ phase = "encode" /\ seg = NSegs
  /\ IF \A sh \in ShareNums : Len(shares[sh]) = EncShareDataSize(p.size, p.k)
       THEN \E c \in ReadChoices :
              /\ rd' = [off0 |-> c.off, size0 |-> c.size, off |-> c.off, size |-> ClipSize(p.size, c.off, c.size)]
              /\ phase' = "download"
       ELSE phase' = "error" /\ UNCHANGED rd
  /\ UNCHANGED <<p, seg, fed, shares, fetch, got, delivered>>

(* ---- download ------------------------------------------------------------------- *)
Dl == DlSizes(p.size, p.k, SegSz)          \* what the node derives from the cap and the UEB's segment size

FetchNextSegment ==
  /\ phase = "download" /\ fetch = NoSeg
  /\ IF rd.size = 0 THEN phase' = "done" /\ UNCHANGED fetch
     ELSE fetch' = WantedSeg(rd.off, SegSz) /\ UNCHANGED phase
  /\ got' = <<>>
  /\ UNCHANGED <<p, seg, fed, shares, rd, delivered>>

\* Share._satisfy_data_block / ReadBucketProxy._get_block_data: any share may answer next
BlockResponse(sh) ==
  /\ phase = "download" /\ fetch # NoSeg /\ sh \notin DOMAIN got /\ Cardinality(DOMAIN got) < p.k
  /\ LET tail == (fetch = Dl.num_segments - 1)
         len == IF tail THEN Dl.tail_block_size ELSE Dl.block_size
     IN got' = [s \in DOMAIN got \cup {sh} |-> IF s = sh THEN ReadAt(shares[sh], fetch * Dl.block_size, len) ELSE got[s]]
  /\ UNCHANGED <<p, phase, seg, fed, shares, rd, fetch, delivered>>

\* DownloadNode.process_blocks: _decode_blocks, then Segmentation._got_segment
ProcessBlocks ==
  /\ phase = "download" /\ fetch # NoSeg /\ Cardinality(DOMAIN got) = p.k
  /\ LET tail == (fetch = Dl.num_segments - 1)
         blen == IF tail THEN Dl.tail_block_size ELSE Dl.block_size
         dsize == IF tail THEN Dl.tail_segment_padded ELSE SegSz
         wellformed == \A sh \in DOMAIN got : got[sh] = BlockTokens(sh, fetch, blen)    \* assert len(share) == block_size + codec contract
         decoded == fed[fetch + 1]
         segment == IF tail THEN SubSeq(decoded, 1, Dl.tail_segment_size) ELSE decoded
         o == Overlap(fetch * SegSz, Len(segment), rd.off, rd.size)
     IN IF fetch < Len(fed) /\ wellformed /\ Len(decoded) = dsize /\ o.some /\ o.start = rd.off
          THEN LET ois == rd.off - fetch * SegSz
                   piece == SubSeq(segment, ois + 1, ois + o.len)
               IN /\ delivered' = delivered \o piece
                  /\ rd' = [rd EXCEPT !.off = @ + Len(piece), !.size = @ - Len(piece)]
                  /\ UNCHANGED phase
          ELSE phase' = "error" /\ UNCHANGED <<delivered, rd>>
  /\ fetch' = NoSeg /\ got' = <<>>
  /\ UNCHANGED <<p, seg, fed, shares>>

Finished == phase \in {"done", "error"} /\ UNCHANGED vars
Next == EncodeSegment \/ FinishUpload \/ FetchNextSegment \/ ProcessBlocks \/ Finished \/ \E sh \in ShareNums : BlockResponse(sh)
Spec == Init /\ [][Next]_vars

(* ---- properties -------------------------------------------------------------------- *)
\* the slice asked for, stated over positions
WantSeq == LET lo == rd.off0
               hi == IF rd.size0 = Unlimited THEN p.size ELSE Min(p.size, rd.off0 + rd.size0)
           IN [i \in 1..Max(0, hi - lo) |-> lo + i - 1]
C01_NoError == phase # "error"
C01_NoPadDelivered == \A i \in 1..Len(delivered) : delivered[i] # Pad
C01_InOrder == phase \in {"download", "done"} => IsPrefixOf(delivered, WantSeq)
C01_RoundTrip == phase = "done" => delivered = WantSeq
\* depends on the parameters only: evaluated once per parameter tuple (in its initial state)
C01_LayoutLemmas == (phase = "encode" /\ seg = 0) => \A v \in {1, 2} : LayoutLemmas(p.size, p.k, p.N, p.maxseg, v)
\* the data region of every share holds exactly the blocks, in segment order
C01_ShareData == phase \in {"download", "done"} =>
                   \A sh \in ShareNums : Len(shares[sh]) = EncShareDataSize(p.size, p.k)
=============================================================================
