SPECIFICATION Spec
CONSTANTS
  Size = 7
  Chunk = 2
  N = 2
  ResumeAt = "fetched"
  MaxInterrupts = 2
  MaxUploads = 4
INVARIANT C44_CapEqual
INVARIANT C44_SharesEqual
INVARIANT C44_IncomingIsPrefix
INVARIANT C44_NoRefetch
INVARIANT C44_ReaderForward
INVARIANT C44_Complete
PROPERTY C44_AlreadyPresentNoPush
CHECK_DEADLOCK FALSE
