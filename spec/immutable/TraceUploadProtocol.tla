------------------------ MODULE TraceUploadProtocol ------------------------
(* Contract-level trace validation of the server-selection conversation of
   real immutable uploads (harness/uploadproto_driver.py).

   A trace is one upload on a SimGrid grid:
     consts : servers, order (the permuted list the broker hands to the
              uploader), n, k, happy, size, maxseg, advertised_ro (servers
              whose announced maximum share size is too small), pre, timeout
     events : Send(kind, srv, seq, asked, secret_ok)   a request leaves the client
              SendAbort(srv, sh)                        an abort of a bucket leaves the client
              Timeout(srv, seq)                         the 15 s timer of that request fired
              Recv(kind, srv, seq, ok, lost, res | already, allocated)   the request is delivered
              Close / Abort (srv, sh, ok), WriteLost(srv, sh)            delivered bucket calls
              Success(...) | Failure(...) | Hang
              Quiescent(disk)
   Only remote calls and the result object are looked at - no attribute of
   the selector.  TLC replays the storage calls through UploadSelect's store
   operators, keeps what the servers acknowledged *in time* to the client
   (ackEx: get_buckets answers, ackAlready / ackAlloc: allocate_buckets
   answers), and judges every event with UploadProtocol's operators.  The
   verdict is the name of the first clause that fails; clauses starting with
   store_ are replay / harness consistency, XP_ are protocol rules.  (Clause
   names stay short: TLC wraps a printed tuple longer than a line.) *)
EXTENDS UploadProtocol, Json, IOUtils, TLCExt

Traces == JsonDeserialize(IOEnv.TRACE_FILE)

VARIABLES tid, l, S, bad
tvars == <<tid, l, S, bad>>

C == Traces[tid].consts
Events == Traces[tid].events
Srv == ToSet(C.servers)
Shares == 0..(C.n - 1)
Targets == SurveyTargets(C.order, C.n)
AdvertisedRO == ToSet(C.advertised_ro)
PairsOfSeq(q) == {<<q[i][1], q[i][2]>> : i \in 1..Len(q)}
NoSharesT == [s \in Srv |-> {}]

InitS(c) ==
  LET srv == ToSet(c.servers) IN
  [ St |-> [s \in srv |-> [fin |-> ToSet(c.pre[s]), inc |-> ToSet(c.pre_inc[s])]],
    renewed |-> [s \in srv |-> {}],           \* server side: shares whose lease an executed call of this upload added / renewed
    out |-> [s \in srv |-> 0],                \* seq of the outstanding request per server (0 = none)
    reqs |-> <<>>,                            \* seq -> [srv, kind, asked]
    timedOut |-> {},                          \* seqs whose timer fired before the answer
    surveyed |-> {}, allocSeen |-> FALSE, allocSentTo |-> {}, allocAnswered |-> {},
    roundOpen |-> FALSE, roundBad |-> FALSE, rounds |-> 0, roundAsked |-> [s \in srv |-> {}], roundSrv |-> {},
    ackEx |-> {}, ackAlready |-> {}, ackAlloc |-> {}, lateAlloc |-> {},
    failedSurvey |-> {}, failedAlloc |-> {}, refused |-> {}, tried |-> {},
    deferred |-> "",                          \* a rule broken without (so far) visible consequence: reported at the end

    abortSent |-> {}, abortLost |-> {}, closedOk |-> {}, failedB |-> {},
    superseded |-> {},                        \* buckets aborted while server selection went on (given up for a new plan)
    res |-> [kind |-> "none", placed |-> {}] ]

V(c, s) == [c |-> c, S |-> s]
Same(c) == V(c, S)
Held(s) == OnServer(S.ackEx \cup S.ackAlready \cup S.ackAlloc, s)
KnownRO == AdvertisedRO \cup S.failedSurvey \cup S.failedAlloc \cup S.refused
AliveBuckets == (S.ackAlloc \ S.failedB) \ S.superseded
AckExisting == S.ackEx \cup S.ackAlready
OutstandingKinds == {S.reqs[S.out[s]].kind : s \in {x \in Srv : S.out[x] # 0}}

(* ---- requests ---------------------------------------------------------------------- *)
VSendGet(e) ==
  IF e.srv \notin Targets THEN Same("XP_SurveyOnlyFirst2N")
  ELSE IF S.allocSeen THEN Same("XP_SurveyBeforeAllocate")
  ELSE IF e.srv \in S.surveyed THEN Same("XP_SurveyOncePerServer")
  ELSE IF S.out[e.srv] # 0 THEN Same("XP_OneOutstandingPerServer")
  ELSE V("", [S EXCEPT !.out[e.srv] = e.seq, !.surveyed = @ \cup {e.srv},
                       !.reqs = (e.seq :> [srv |-> e.srv, kind |-> "get", asked |-> {}]) @@ @])

ROCause(s) == IF s \in AdvertisedRO THEN "advertised"
              ELSE IF s \in S.failedSurvey THEN "after_survey_failure"
              ELSE IF s \in S.failedAlloc THEN "after_error"
              ELSE "after_refusal"

VSendAlloc(e) ==
  LET asked == ToSet(e.asked)
      newRound == ~S.roundOpen
      effSurvey == EffectiveHappiness(S.ackEx, AliveBuckets \ S.abortSent)
      eff == EffectiveHappiness(AckExisting, AliveBuckets \ S.abortSent)      \* with the shares named in alreadygot answers
      \* docs/architecture.rst: the alreadygot of an allocate_buckets answer is "added to the share-to-server table"
      goesOn == newRound /\ S.rounds >= 1 /\ eff >= C.happy
      others == UNION {S.roundAsked[s] : s \in Srv \ {e.srv}}
  IN IF ~S.allocSeen /\ S.surveyed # Targets THEN Same("XP_SurveyCoversFirst2N")
     ELSE IF "get" \in OutstandingKinds THEN Same("XP_SurveyCompleteBeforeAllocate")
     ELSE IF e.srv \notin S.surveyed THEN Same("XP_OnlySurveyedServersAreAsked")
     ELSE IF S.out[e.srv] # 0 THEN Same("XP_OneOutstandingPerServer")
     ELSE IF newRound /\ "alloc" \in OutstandingKinds THEN Same("XP_RoundCompleteBeforeNext")
     ELSE IF newRound /\ S.rounds >= 1 /\ ~S.roundBad THEN Same("XP_ReplanOnlyAfterFailedPlacement")
     ELSE IF newRound /\ S.rounds >= 1 /\ effSurvey >= C.happy THEN Same("XP_StopWhenHappy")
     ELSE IF ~e.secret_ok THEN Same("XP_LeaseSecretOfClient")
     ELSE IF ~(asked \subseteq Shares) THEN Same("XP_AskedShareNumbersValid")
     ELSE IF ~newRound /\ e.srv \in S.roundSrv THEN Same("XP_OneRequestPerServerPerRound")
     ELSE IF ~newRound /\ asked \cap others # {} THEN Same("XP_ShareOncePerRound")
     ELSE IF e.srv \in KnownRO /\ ~(asked \subseteq Held(e.srv)) /\ ROCause(e.srv) # "after_refusal"
       THEN Same("XP_NoNewShareFromRO:" \o ROCause(e.srv))
     ELSE LET reasked == e.srv \in KnownRO /\ ~(asked \subseteq Held(e.srv))
              S0 == IF S.deferred # "" THEN S
                    ELSE IF goesOn THEN [S EXCEPT !.deferred = "XP_StopWhenHappy:alreadygot"]
                    ELSE IF reasked THEN [S EXCEPT !.deferred = "XP_NoNewShareFromRO:after_refusal"]
                    ELSE S
              S1 == IF newRound
                      THEN [S0 EXCEPT !.roundOpen = TRUE, !.roundBad = FALSE, !.rounds = @ + 1,
                                      !.roundAsked = [s \in Srv |-> {}], !.roundSrv = {}]
                      ELSE S0
          IN V("", [S1 EXCEPT !.out[e.srv] = e.seq, !.allocSeen = TRUE, !.allocSentTo = @ \cup {e.srv},
                              !.superseded = @ \cup S.abortSent,
                              !.tried = IF asked # {} THEN @ \cup {e.srv} ELSE @,
                              !.roundAsked[e.srv] = asked, !.roundSrv = @ \cup {e.srv},
                              !.reqs = (e.seq :> [srv |-> e.srv, kind |-> "alloc", asked |-> asked]) @@ @])

VSend(e) == IF e.kind = "get" THEN VSendGet(e) ELSE VSendAlloc(e)

VSendAbort(e) == V("", [S EXCEPT !.abortSent = @ \cup {<<e.srv, e.sh>>}])

\* the selector gives a request up: for the client the same as an error
VTimeout(e) ==
  IF S.out[e.srv] # e.seq THEN Same("store_timeout_of_unknown_request")
  ELSE LET kind == S.reqs[e.seq].kind
           S1 == [S EXCEPT !.out[e.srv] = 0, !.timedOut = @ \cup {e.seq}]
       IN IF kind = "get" THEN V("", [S1 EXCEPT !.failedSurvey = @ \cup {e.srv}])
          ELSE V("", [S1 EXCEPT !.failedAlloc = @ \cup {e.srv}, !.roundBad = TRUE, !.roundOpen = FALSE])

(* ---- deliveries ------------------------------------------------------------------------ *)
VRecvGet(e, late) ==
  IF e.ok /\ ToSet(e.res) # FinalOn(S.St, e.srv) THEN Same("store_get_buckets_differs")
  ELSE IF late THEN Same("")
  ELSE LET S1 == [S EXCEPT !.out[e.srv] = 0]
       IN IF e.ok THEN V("", [S1 EXCEPT !.ackEx = @ \cup ({e.srv} \X ToSet(e.res))])
                  ELSE V("", [S1 EXCEPT !.failedSurvey = @ \cup {e.srv}])

VRecvAlloc(e, late) ==
  LET asked == S.reqs[e.seq].asked
      already == ToSet(e.already)
      allocated == ToSet(e.allocated)
  IN IF ~e.ok
       THEN IF late THEN Same("")
            ELSE V("", [S EXCEPT !.out[e.srv] = 0, !.failedAlloc = @ \cup {e.srv}, !.roundBad = TRUE, !.roundOpen = FALSE])
     ELSE IF already # AllocAlready(S.St, e.srv) THEN Same("store_alreadygot_differs")
     ELSE IF ~(allocated \subseteq AllocCandidates(S.St, e.srv, asked)) THEN Same("store_allocated_unasked_share")
     ELSE IF allocated # {} /\ e.srv \in AdvertisedRO THEN Same("store_advertised_ro_allocated")
     ELSE LET S1 == [S EXCEPT !.St = ApplyAllocate(S.St, e.srv, allocated),
                              !.renewed[e.srv] = @ \cup already]
          IN IF late THEN V("", [S1 EXCEPT !.lateAlloc = @ \cup ({e.srv} \X allocated)])
             ELSE LET refusedAll == allocated = {} /\ (asked \ already) # {}
                  IN V("", [S1 EXCEPT !.out[e.srv] = 0, !.allocAnswered = @ \cup {e.srv},
                                      !.ackAlready = @ \cup ({e.srv} \X already),
                                      !.ackAlloc = @ \cup ({e.srv} \X allocated),
                                      !.abortSent = @ \ ({e.srv} \X allocated),       \* allocated anew after an abort
                                      !.superseded = @ \ ({e.srv} \X allocated),
                                      !.refused = IF refusedAll THEN @ \cup {e.srv} ELSE @,
                                      !.roundBad = (@ \/ PlacedNothing(TRUE, allocated)),
                                      !.roundOpen = FALSE])

VRecv(e) ==
  IF e.lost THEN Same("")                                \* never executed, never answered: the timer will fire
  ELSE IF e.seq \notin DOMAIN S.reqs THEN Same("store_delivery_of_unknown_request")
  ELSE LET late == e.seq \in S.timedOut
       IN IF ~late /\ S.out[e.srv] # e.seq THEN Same("store_delivery_of_unknown_request")
          ELSE IF e.kind = "get" THEN VRecvGet(e, late) ELSE VRecvAlloc(e, late)

VClose(e) ==
  IF e.ok THEN V("", [S EXCEPT !.St = ApplyClose(S.St, e.srv, e.sh), !.closedOk = @ \cup {<<e.srv, e.sh>>},
                               !.renewed[e.srv] = @ \cup {e.sh}])
  ELSE V("", [S EXCEPT !.failedB = @ \cup {<<e.srv, e.sh>>}])
VAbort(e) == IF e.ok THEN V("", [S EXCEPT !.St = ApplyAbort(S.St, e.srv, e.sh)])
             ELSE V("", [S EXCEPT !.abortLost = @ \cup {<<e.srv, e.sh>>}])      \* the abort was sent; an injected fault ate it
VWriteLost(e) == V("", [S EXCEPT !.failedB = @ \cup {<<e.srv, e.sh>>}])

(* ---- the result ---------------------------------------------------------------------------- *)
\* which servers hold shares the claim needs although no allocate_buckets of this upload renewed their leases
Unrenewed == {s \in ServersOfPairs(S.ackEx) : OnServer(S.ackEx, s) \ OnServer(S.ackAlready, s) # {}}
RenewalCause == IF Unrenewed \subseteq S.allocSentTo THEN "renewal_failed" ELSE "renewal_not_requested"

VSuccess(e) ==
  LET placed == PairsOfSeq(e.sharemap)
      inverse == PairsOfSeq(e.servermap)
      nEx == Cardinality(SharesOfPairs(S.ackEx))
      nExAll == Cardinality(SharesOfPairs(AckExisting))
  IN IF C.order = <<>> THEN Same("XP_NoServersOnlyWithoutServers")
     ELSE IF ~(placed \subseteq S.closedOk) THEN Same("XP_ResultSharemap:unacknowledged_share")
     ELSE IF ~((S.closedOk \cap S.ackAlloc) \subseteq placed) THEN Same("XP_ResultSharemap:omits_closed_share")
     ELSE IF inverse # placed THEN Same("XP_ResultServermapIsInverse")
     ELSE IF ~OneServerPerShare(placed) THEN Same("XP_ResultOneServerPerShare")
     ELSE IF e.pushed # Cardinality(SharesOfPairs(placed)) THEN Same("XP_ResultPushedCount")
     ELSE IF e.preexisting < nEx \/ e.preexisting > nExAll THEN Same("XP_ResultPreexistingCount")
     ELSE IF ~UEBFieldsOK(e.ueb, C.size, C.k, C.n, C.maxseg) \/ e.file_size # C.size THEN Same("XP_ResultUEBFields")
     ELSE IF ~(e.cap.k = C.k /\ e.cap.n = C.n /\ e.cap.size = C.size /\ e.cap.si_ok) THEN Same("XP_ResultVerifyCap")
     ELSE IF HappinessOfPairs(placed \cup AckExisting) < C.happy THEN Same("XP_SuccessMeetsHappiness")
     ELSE IF ~((S.ackAlloc \ placed) \subseteq S.abortSent) THEN Same("XP_UnusedAbortedBeforeResult")
     ELSE IF HappinessOfPairs(placed \cup S.ackAlready) < C.happy THEN Same("XP_RenewedHappiness:" \o RenewalCause)
     ELSE V("", [S EXCEPT !.res = [kind |-> "success", placed |-> placed]])

\* docs/architecture.rst: "when a server refuses our request, we take that share to the next server on the list ...
\* We keep going until we run out of shares that need to be stored": server selection does not give up while a
\* surveyed server that never failed or refused has not been asked to hold anything
Untried == (S.surveyed \ KnownRO) \ S.tried
SelectionPhase == S.closedOk = {} /\ S.failedB = {}

VUnhappy(e) ==
  LET effLow == EffectiveHappiness(S.ackEx, AliveBuckets)
      effHigh == EffectiveHappiness(AckExisting, AliveBuckets)
      pcLow == Cardinality(ServersOfPairs(AliveBuckets))
      pcHigh == Cardinality(ServersOfPairs(AckExisting \cup S.ackAlloc))
      nums == e.nums
  IN IF C.order = <<>> THEN Same("XP_NoServersOnlyWithoutServers")
     ELSE IF SelectionPhase /\ Untried # {}
       THEN Same(IF S.deferred = "XP_NoNewShareFromRO:after_refusal" THEN "XP_GiveUpEarly:refuser_asked_again"
                 ELSE IF S.roundBad THEN "XP_GiveUpEarly:after_failed_round"     \* step 10: "go back to step 2"
                 ELSE "XP_GiveUpEarly:other")
     ELSE IF effHigh >= C.happy /\ effLow >= C.happy THEN Same("XP_FailureIsJustified")
     ELSE IF effHigh >= C.happy THEN Same("XP_FailureIsJustified:alreadygot")
     ELSE IF ~((S.ackAlloc \ S.closedOk) \subseteq S.abortSent) THEN Same("XP_UnusedAbortedBeforeResult")
     ELSE IF e.msgclass = "too_few_servers"
       THEN IF nums[1] < C.k /\ nums[1] >= pcLow /\ nums[1] <= pcHigh /\ nums[2] = C.happy /\ nums[3] = C.k
              THEN V("", [S EXCEPT !.res = [kind |-> "unhappy", placed |-> {}]]) ELSE Same("XP_FailureMessageClass")
     ELSE IF e.msgclass = "not_spread"
       THEN IF nums[1] >= C.k /\ nums[1] >= pcLow /\ nums[1] <= pcHigh /\ nums[2] = C.k /\ effLow < C.k
              THEN V("", [S EXCEPT !.res = [kind |-> "unhappy", placed |-> {}]]) ELSE Same("XP_FailureMessageClass")
     ELSE IF e.msgclass = "happiness_short"
       THEN IF nums[1] >= C.k /\ nums[1] >= effLow /\ nums[1] <= effHigh /\ nums[2] = C.k /\ nums[3] = C.happy /\ pcHigh >= C.k
              THEN V("", [S EXCEPT !.res = [kind |-> "unhappy", placed |-> {}]]) ELSE Same("XP_FailureMessageClass")
     ELSE Same("XP_FailureMessageClass")

VFailure(e) ==
  IF "NoServersError" \in ToSet(e.mro)
    THEN IF C.order = <<>> /\ DOMAIN S.reqs = {} THEN V("", [S EXCEPT !.res = [kind |-> "noservers", placed |-> {}]])
         ELSE Same("XP_NoServersOnlyWithoutServers")
  ELSE IF "UploadUnhappinessError" \in ToSet(e.mro) THEN VUnhappy(e)
  ELSE IF e.cls = "AssertionError" /\ e.where = "upload.py:set_shareholders" /\ ~OneServerPerShare(S.ackAlloc \ S.abortSent)
    THEN \* the named deviation: one share number was allocated on two servers and none of the two was aborted
         Same("XP_DevDuplicateAllocationAssert")
  ELSE Same("XP_UnexpectedDeath")

VHang(e) == Same("XP_NoResult")

VQuiescent(e) ==
  LET D == e.disk
      orphans == (UNION {{s} \X (ToSet(D[s].incoming) \ ToSet(C.pre_inc[s])) : s \in Srv}) \ S.abortLost
  IN IF \E s \in Srv : ToSet(D[s].final) # FinalOn(S.St, s) THEN Same("store_disk_differs")
     ELSE IF \E s \in Srv : ToSet(D[s].incoming) # IncomingOn(S.St, s) THEN Same("store_incoming_differs")
     ELSE IF orphans # {} /\ orphans \subseteq S.lateAlloc THEN Same("XP_NoOrphanBuckets:late_answer")
     ELSE IF orphans # {} THEN Same("XP_NoOrphanBuckets:other")
     ELSE IF \E s \in Srv : ~(S.renewed[s] \cap FinalOn(S.St, s) \subseteq ToSet(D[s].fresh)) THEN Same("XP_LeasesRenewed:missing")
     ELSE IF \E s \in Srv : ~(ToSet(D[s].fresh) \subseteq S.renewed[s]) THEN Same("XP_LeasesRenewed:unexpected")
     ELSE IF S.res.kind = "success" /\ \E p \in S.res.placed : p[2] \notin ToSet(D[p[1]].ueb_ok) THEN Same("XP_ResultUEBOnServers")
     ELSE Same(S.deferred)

Verdict(e) ==
  CASE e.ev = "Send"      -> VSend(e)
    [] e.ev = "SendAbort" -> VSendAbort(e)
    [] e.ev = "Timeout"   -> VTimeout(e)
    [] e.ev = "Recv"      -> VRecv(e)
    [] e.ev = "Close"     -> VClose(e)
    [] e.ev = "Abort"     -> VAbort(e)
    [] e.ev = "WriteLost" -> VWriteLost(e)
    [] e.ev = "Success"   -> VSuccess(e)
    [] e.ev = "Failure"   -> VFailure(e)
    [] e.ev = "Hang"      -> VHang(e)
    [] e.ev = "Quiescent" -> VQuiescent(e)
    [] OTHER              -> Same("unknown_event")

TraceInit ==
  /\ tid \in 1..Len(Traces)
  /\ l = 1
  /\ S = InitS(Traces[tid].consts)
  /\ bad = "none"

TraceNext ==
  /\ bad = "none"
  /\ l <= Len(Events)
  /\ LET v == Verdict(Events[l])
     IN IF v.c = ""
          THEN /\ S' = v.S /\ l' = l + 1 /\ bad' = "none"
               /\ (l = Len(Events) => PrintT(<<"VF_ACCEPT", tid, l>>))
          ELSE /\ bad' = v.c /\ UNCHANGED <<S, l>>
               /\ PrintT(<<"VF_REJECT", tid, l, v.c>>)
  /\ UNCHANGED tid

TraceSpec == TraceInit /\ [][TraceNext]_tvars
TraceOK == bad = "none"
\* on every state of a recorded execution: nothing is ever allocated on a server that advertises itself read-only,
\* and the client never has two requests outstanding at one server (built into `out`)
XP_NothingAllocatedOnAdvertisedReadOnly == \A s \in AdvertisedRO : IncomingOn(S.St, s) = {}
=============================================================================
