-------------------------- MODULE MCUploadProtocol --------------------------
(* Design model of one immutable upload as a conversation between the client
   (Tahoe2ServerSelector + CHKUploader + Encoder) and the storage servers.

   Communicating steps: the client sends get_buckets to the first 2*N servers
   of the permuted list (StartSurvey), each request is answered, fails or
   times out (SurveyAnswer / SurveyError); the client computes a placement
   (Plan: any placement that Happiness.tla calls valid, or only those of best
   spread), aborts the buckets the new plan no longer uses, and sends at most
   one allocate_buckets per tracker for the round; every request is answered,
   fails, or times out while staying in flight (AllocAnswer / AllocError /
   AllocTimeout / LateExec); when no request is outstanding the round ends
   (EndRound): success path if the happiness of (confirmed existing +
   allocated) reaches the threshold, another round if a placement failed and
   a writable server is left, failure otherwise (everything allocated is
   aborted first).  Then set_shareholders, push + close per bucket with
   shareholder loss (as in MCUploadSelect) and the result object.

   Deviations of the implementation are *named actions / switches*, enabled
   only through the constant Deviations, never part of the intended protocol:
     "keep_stale_buckets"  - buckets of earlier rounds are kept when the new
                             plan gives their share to another server; two
                             trackers can then hold one share number and
                             CHKUploader.set_shareholders dies with an
                             AssertionError (DevDuplicateAllocationAssert),
                             leaving every bucket un-aborted.
     "late_answer_leak"    - buckets in an answer that arrives after the 15 s
                             timeout are never aborted.
     "count_unrenewed"     - the decision counts shares reported by the survey
                             although the allocate_buckets that renews their
                             leases failed or was never sent.
     "refuser_stays_writable"   - a server that refused the new shares it was
                             asked for stays a writable candidate of the next
                             placement (it is only remembered as "bad" for
                             the round);
     "stop_without_improvement" - the selector gives up when the happiness value
                             of a round equals that of the round before, even
                             though a placement just failed and a writable
                             server is left.  (Both together: the upload fails
                             although an untried server would have taken the
                             share - XP_ReachableSucceeds; the first alone:
                             the same server is asked for ever -
                             XP_RoundsBounded.)
   With Deviations = {} every invariant below holds; the check also runs the
   model with each deviation switched on and expects TLC to name the
   invariant it breaks (the invariants are not vacuous). *)
EXTENDS UploadProtocol

CONSTANTS Servers, Order, NShares, K, Happy, ModeSet, MaxPre, MaxFaults, Deviations, BestSpreadOnly

\* permuted server lists for the configuration files (a cfg cannot contain a tuple): Order <- Order3
Order0 == <<>>
Order2 == <<"s1", "s2">>
Order3 == <<"s1", "s2", "s3">>
Order4 == <<"s1", "s2", "s3", "s4">>

Shares == 0..(NShares - 1)
Targets == SurveyTargets(Order, NShares)
NoShares == [s \in Servers |-> {}]

VARIABLES mode, pre,          \* ground truth: server -> "writable" | "readonly" (advertised) | "full" (not advertised); shares before the upload
          St, renewed,        \* servers: the store; shares whose lease was added / renewed by a call of this upload
          out,                \* client: server -> "none" | "get" | "alloc", the outstanding request
          limbo,              \* allocate requests given up by a timeout that may still reach their server
          phase, ro, dead,    \* client: phase; trackers treated as read-only; servers whose survey failed
          ex, conf, bk,       \* client: survey answers; alreadygot of allocate answers; buckets it holds writers for
          asked, roundBad, rounds, faults, lastEff,
          ackAlloc, abortSent, closed,   \* ghosts: every bucket ever acknowledged; buckets an abort was sent for; closed ok
          handed,              \* the pre-existing shares handed to set_shareholders
          result, report
vars == <<mode, pre, St, renewed, out, limbo, phase, ro, dead, ex, conf, bk, asked, roundBad, rounds, faults, lastEff,
          ackAlloc, abortSent, closed, handed, result, report>>

Dev(d) == d \in Deviations
NoReport == [placed |-> {}, found |-> {}, pushed |-> 0, preexisting |-> 0, msgclass |-> "none", eff |-> 0, peers |-> 0]

Init ==
  /\ mode \in [Servers -> ModeSet]
  /\ pre \in [Servers -> {X \in SUBSET Shares : Cardinality(X) <= MaxPre}]
  /\ St = [s \in Servers |-> [fin |-> pre[s], inc |-> {}]]
  /\ renewed = NoShares /\ out = [s \in Servers |-> "none"] /\ limbo = {}
  /\ phase = "start" /\ ro = {} /\ dead = {} /\ ex = NoShares /\ conf = NoShares /\ bk = NoShares
  /\ asked = NoShares /\ roundBad = FALSE /\ rounds = 0 /\ faults = 0 /\ lastEff = -1
  /\ ackAlloc = {} /\ abortSent = {} /\ closed = {} /\ handed = {}
  /\ result = "none" /\ report = NoReport

\* The handlers of answers from different servers commute (the servers' states are disjoint, the client only
\* accumulates unions and a disjunction), so in-time answers are taken in one fixed order; requests that a
\* timeout left in flight (limbo) are executed at any later moment.
Turn(s, kind) == s = CHOOSE t \in Servers : out[t] = kind

AbortPairs(T, P) == [s \in Servers |-> [T[s] EXCEPT !.inc = @ \ OnServer(P, s)]]
Idle == \A s \in Servers : out[s] = "none"

\* what the decision may count as already present
Counted == IF Dev("count_unrenewed") THEN PairsOn(ex) \cup PairsOn(conf) ELSE PairsOn(conf)
PeerCount == Cardinality({s \in Servers : ex[s] \cup conf[s] \cup bk[s] # {}})

(* ---- step 0/1: survey ------------------------------------------------------------- *)
StartSurvey ==
  /\ phase = "start"
  /\ IF Order = <<>>
       THEN /\ phase' = "done" /\ result' = "noservers" /\ UNCHANGED <<out, ro>>
       ELSE /\ phase' = "survey" /\ UNCHANGED result
            /\ out' = [s \in Servers |-> IF s \in Targets THEN "get" ELSE "none"]
            /\ ro' = {s \in Targets : mode[s] = "readonly"}
  /\ UNCHANGED <<lastEff, mode, pre, St, renewed, limbo, dead, ex, conf, bk, asked, roundBad, rounds, faults, ackAlloc, abortSent, closed, handed, report>>

SurveyAnswer(s) ==
  /\ phase = "survey" /\ out[s] = "get" /\ Turn(s, "get")
  /\ out' = [out EXCEPT ![s] = "none"]
  /\ ex' = [ex EXCEPT ![s] = FinalOn(St, s)]
  /\ UNCHANGED <<lastEff, mode, pre, St, renewed, limbo, phase, ro, dead, conf, bk, asked, roundBad, rounds, faults, ackAlloc, abortSent, closed, handed, result, report>>

\* error or timeout: no shares are planned for this server any more; it stays a (read-only) tracker
SurveyError(s) ==
  /\ phase = "survey" /\ out[s] = "get" /\ Turn(s, "get") /\ faults < MaxFaults
  /\ faults' = faults + 1
  /\ out' = [out EXCEPT ![s] = "none"]
  /\ dead' = dead \cup {s} /\ ro' = ro \cup {s}
  /\ UNCHANGED <<lastEff, mode, pre, St, renewed, limbo, phase, ex, conf, bk, asked, roundBad, rounds, ackAlloc, abortSent, closed, handed, result, report>>

EndSurvey ==
  /\ phase = "survey" /\ Idle
  /\ phase' = "plan"
  /\ UNCHANGED <<lastEff, mode, pre, St, renewed, out, limbo, ro, dead, ex, conf, bk, asked, roundBad, rounds, faults, ackAlloc, abortSent, closed, handed, result, report>>

(* ---- steps 2-9: one round ------------------------------------------------------------ *)
Writable == Targets \ (ro \cup dead)
ReadOnly == ro \ dead
Known == [s \in Servers |-> ex[s] \cup conf[s] \cup bk[s]]

Plan ==
  /\ phase = "plan"
  /\ \E m \in (IF BestSpreadOnly THEN BestPlans(Writable, ReadOnly, Shares, Known) ELSE Plans(Writable, ReadOnly, Shares, Known)) :
       LET unused == IF Dev("keep_stale_buckets") THEN {} ELSE UnusedBuckets(m, PairsOn(bk))
           bk2 == [s \in Servers |-> bk[s] \ OnServer(unused, s)]
           Q == {s \in Targets : MustQuery(m, s, bk2[s], ro)}
       IN /\ St' = AbortPairs(St, unused) /\ bk' = bk2 /\ abortSent' = abortSent \cup unused
          /\ asked' = [s \in Servers |-> IF s \in Q THEN AskedOf(m, s) \ bk2[s] ELSE {}]
          /\ out' = [s \in Servers |-> IF s \in Q THEN "alloc" ELSE "none"]
  /\ roundBad' = FALSE /\ rounds' = rounds + 1 /\ phase' = "round"
  /\ UNCHANGED <<lastEff, mode, pre, renewed, limbo, ro, dead, ex, conf, faults, ackAlloc, closed, handed, result, report>>

\* storage/server.py allocate_buckets
ServerAllocated(s, want) == IF mode[s] = "writable" THEN AllocCandidates(St, s, want) ELSE {}

AllocAnswer(s) ==
  /\ phase = "round" /\ out[s] = "alloc" /\ Turn(s, "alloc")
  /\ LET already == AllocAlready(St, s)
         allocated == ServerAllocated(s, asked[s])
         failed == PlacementFailed(TRUE, asked[s], already, allocated)
     IN /\ St' = ApplyAllocate(St, s, allocated)
        /\ renewed' = [renewed EXCEPT ![s] = @ \cup already]
        /\ conf' = [conf EXCEPT ![s] = already]
        /\ bk' = [bk EXCEPT ![s] = @ \cup allocated]
        /\ ackAlloc' = ackAlloc \cup ({s} \X allocated)
        /\ ro' = IF failed /\ ~Dev("refuser_stays_writable") THEN ro \cup {s} ELSE ro
        /\ roundBad' = (roundBad \/ failed)
  /\ out' = [out EXCEPT ![s] = "none"]
  /\ UNCHANGED <<lastEff, mode, pre, limbo, phase, dead, ex, asked, rounds, faults, abortSent, closed, handed, result, report>>

\* the request fails before the server executes it
AllocError(s) ==
  /\ phase = "round" /\ out[s] = "alloc" /\ Turn(s, "alloc") /\ faults < MaxFaults
  /\ faults' = faults + 1
  /\ out' = [out EXCEPT ![s] = "none"]
  /\ ro' = ro \cup {s} /\ roundBad' = TRUE
  /\ UNCHANGED <<lastEff, mode, pre, St, renewed, limbo, phase, dead, ex, conf, bk, asked, rounds, ackAlloc, abortSent, closed, handed, result, report>>

\* the 15 s timer fires: for the client an error, but the request is still on its way
AllocTimeout(s) ==
  /\ phase = "round" /\ out[s] = "alloc" /\ Turn(s, "alloc") /\ faults < MaxFaults
  /\ faults' = faults + 1
  /\ out' = [out EXCEPT ![s] = "none"]
  /\ ro' = ro \cup {s} /\ roundBad' = TRUE
  /\ limbo' = limbo \cup {[srv |-> s, want |-> asked[s]]}
  /\ UNCHANGED <<lastEff, mode, pre, St, renewed, phase, dead, ex, conf, bk, asked, rounds, ackAlloc, abortSent, closed, handed, result, report>>

\* ... and is executed later; the client aborts whatever such an answer allocates (it is not going to use it)
LateExec(q) ==
  /\ q \in limbo
  /\ limbo' = limbo \ {q}
  /\ LET s == q.srv
         allocated == ServerAllocated(s, q.want)
     IN /\ renewed' = [renewed EXCEPT ![s] = @ \cup AllocAlready(St, s)]
        /\ ackAlloc' = ackAlloc \cup ({s} \X allocated)
        /\ IF Dev("late_answer_leak")
             THEN St' = ApplyAllocate(St, s, allocated) /\ UNCHANGED abortSent
             ELSE UNCHANGED St /\ abortSent' = abortSent \cup ({s} \X allocated)
  /\ UNCHANGED <<lastEff, mode, pre, out, phase, ro, dead, ex, conf, bk, asked, roundBad, rounds, faults, closed, handed, result, report>>

Fail(T, B, eff) ==
  /\ St' = AbortPairs(T, B) /\ abortSent' = abortSent \cup B
  /\ result' = "unhappy" /\ phase' = "done"
  /\ report' = [NoReport EXCEPT !.msgclass = MsgClass(PeerCount, K, Happy, eff), !.eff = eff, !.peers = PeerCount]

EndRound ==
  /\ phase = "round" /\ Idle
  /\ LET eff == EffectiveHappiness(Counted, PairsOn(bk))
     IN IF eff >= Happy
          THEN /\ phase' = "setsh" /\ handed' = Counted
               /\ UNCHANGED <<St, bk, abortSent, result, report>>
          ELSE IF roundBad /\ Writable # {} /\ ~(Dev("stop_without_improvement") /\ eff = lastEff)
            THEN phase' = "plan" /\ UNCHANGED <<St, bk, abortSent, handed, result, report>>
            ELSE Fail(St, PairsOn(bk), eff) /\ bk' = NoShares /\ UNCHANGED handed
  /\ lastEff' = IF Dev("stop_without_improvement") THEN EffectiveHappiness(Counted, PairsOn(bk)) ELSE lastEff
  /\ UNCHANGED <<mode, pre, renewed, out, limbo, ro, dead, ex, conf, asked, roundBad, rounds, faults, ackAlloc, closed>>

(* ---- CHKUploader.set_shareholders ------------------------------------------------------ *)
Duplicate == ~OneServerPerShare(PairsOn(bk))

SetShareholders ==
  /\ phase = "setsh" /\ ~Duplicate
  /\ phase' = "push"
  /\ UNCHANGED <<lastEff, mode, pre, St, renewed, out, limbo, ro, dead, ex, conf, bk, asked, roundBad, rounds, faults, ackAlloc, abortSent, closed, handed, result, report>>

\* NAMED DEVIATION (never intended): one share number on two trackers -> AssertionError, nothing is aborted
DevDuplicateAllocationAssert ==
  /\ Dev("keep_stale_buckets")
  /\ phase = "setsh" /\ Duplicate
  /\ phase' = "done" /\ result' = "died"
  /\ UNCHANGED <<lastEff, mode, pre, St, renewed, out, limbo, ro, dead, ex, conf, bk, asked, roundBad, rounds, faults, ackAlloc, abortSent, closed, handed, report>>

(* ---- Encoder: push, close, shareholder loss ----------------------------------------------- *)
Landlords == PairsOn(bk)

CloseOK(b) ==
  /\ phase = "push" /\ b \in Landlords \ closed /\ b = CHOOSE x \in Landlords \ closed : TRUE
  /\ St' = ApplyClose(St, b[1], b[2])
  /\ renewed' = [renewed EXCEPT ![b[1]] = @ \cup {b[2]}]
  /\ closed' = closed \cup {b}
  /\ UNCHANGED <<lastEff, mode, pre, out, limbo, phase, ro, dead, ex, conf, bk, asked, roundBad, rounds, faults, ackAlloc, abortSent, handed, result, report>>

\* a write or the close fails: Encoder._remove_shareholder aborts the bucket, forgets it, re-checks happiness
CloseFails(b) ==
  /\ phase = "push" /\ b \in Landlords \ closed /\ b = (CHOOSE x \in Landlords \ closed : TRUE) /\ faults < MaxFaults
  /\ faults' = faults + 1
  /\ LET L == Landlords \ {b}
         T == ApplyAbort(St, b[1], b[2])
         eff == EffectiveHappiness(handed, L)
     IN IF eff < Happy
          THEN Fail(St, (L \ closed) \cup {b}, eff) /\ bk' = NoShares
          ELSE /\ St' = T /\ bk' = [bk EXCEPT ![b[1]] = @ \ {b[2]}] /\ abortSent' = abortSent \cup {b}
               /\ UNCHANGED <<phase, result, report>>
  /\ UNCHANGED <<lastEff, mode, pre, renewed, out, limbo, ro, dead, ex, conf, asked, roundBad, rounds, ackAlloc, closed, handed>>

Finish ==
  /\ phase = "push" /\ Landlords \ closed = {}
  /\ phase' = "done" /\ result' = "success"
  /\ report' = [NoReport EXCEPT !.placed = Landlords, !.found = handed,
                                !.pushed = Cardinality(SharesOfPairs(Landlords)),
                                !.preexisting = Cardinality(SharesOfPairs(handed))]
  /\ UNCHANGED <<lastEff, mode, pre, St, renewed, out, limbo, ro, dead, ex, conf, bk, asked, roundBad, rounds, faults, ackAlloc, abortSent, closed, handed>>

Done == phase = "done" /\ limbo = {} /\ UNCHANGED vars

Next ==
  \/ StartSurvey \/ EndSurvey \/ Plan \/ EndRound \/ SetShareholders \/ DevDuplicateAllocationAssert \/ Finish \/ Done
  \/ \E s \in Servers : SurveyAnswer(s) \/ SurveyError(s) \/ AllocAnswer(s) \/ AllocError(s) \/ AllocTimeout(s)
  \/ \E q \in limbo : LateExec(q)
  \/ \E b \in Servers \X Shares : CloseOK(b) \/ CloseFails(b)
Spec == Init /\ [][Next]_vars

(* ==== what the conversation must look like =================================================== *)
\* at most one outstanding round trip per tracker is built into `out`; requests only go to surveyed servers
XP_OnlySurveyedServersAreAsked == \A s \in Servers : out[s] # "none" => s \in Targets
\* every share number is requested from at most one server per round
XP_ShareOncePerRound == \A s, t \in Servers : s # t => asked[s] \cap asked[t] = {}
\* a read-only server (advertised, or marked after an error / refusal) is only asked for shares it is known to hold
XP_NoNewShareFromReadOnly == phase = "round" => \A s \in ro : out[s] = "alloc" => asked[s] \subseteq Known[s]
\* ground truth: nothing is ever allocated on a server that does not accept writes
XP_NothingAllocatedOnReadOnly == \A s \in Servers : mode[s] # "writable" => IncomingOn(St, s) = {} /\ FinalOn(St, s) = pre[s]
\* the table handed to the encoder maps each share number to one server (docs/architecture.rst)
XP_OneTrackerPerShare == phase \in {"setsh", "push"} => OneServerPerShare(PairsOn(bk))
XP_NeverDies == result # "died"
\* unused allocations are aborted before the result is reported ...
XP_UnusedAbortedBeforeResult ==
  result \in {"success", "unhappy"} => (ackAlloc \ (IF result = "success" THEN report.placed ELSE closed)) \subseteq abortSent
\* ... so that once everything in flight has arrived no bucket of this upload is left half-written
XP_QuiescentNoOrphanBuckets == (phase = "done" /\ limbo = {}) => \A s \in Servers : IncomingOn(St, s) = {}
\* the result object agrees with what the servers acknowledged
XP_ResultMatchesAcknowledgements ==
  result = "success" =>
    /\ report.placed \subseteq ackAlloc /\ report.placed \subseteq closed
    /\ \A p \in report.placed : p[2] \in FinalOn(St, p[1])
    /\ OneServerPerShare(report.placed)
    /\ report.pushed = Cardinality(SharesOfPairs(report.placed))
    /\ \A p \in report.found : p[2] \in pre[p[1]]
    /\ report.preexisting = Cardinality(SharesOfPairs(report.found))
\* termination rule
XP_SuccessMeetsHappiness == result = "success" => HappinessOfPairs(report.placed \cup report.found) >= Happy
\* (the message classes of happinessutil.failure_message, stated by what each message claims)
XP_FailureIsJustified ==
  result = "unhappy" =>
    /\ report.eff < Happy
    /\ report.msgclass \in {"too_few_servers", "not_spread", "happiness_short"}
    /\ report.msgclass = "too_few_servers" => report.peers < K
    /\ report.msgclass = "not_spread" => report.peers >= K /\ report.eff < K
    /\ report.msgclass = "happiness_short" => report.peers >= K /\ report.eff >= K
XP_NoServersOnlyWithoutServers == (result = "noservers") <=> (phase = "done" /\ Order = <<>>)
\* leases: the threshold is met by shares whose lease this upload created or renewed
RenewedPairs == PairsOn(renewed)
XP_HappinessOfRenewedShares == result = "success" => HappinessOfPairs((report.placed \cup report.found) \cap RenewedPairs) >= Happy
\* every read-only tracker is asked to renew in every round (upload.py comment)
XP_ReadOnlyServersRenewed == (phase = "setsh" /\ faults = 0) => \A s \in ro : pre[s] \subseteq renewed[s]
\* each further round needs a server that newly failed: the conversation is short
XP_RoundsBounded == rounds <= Cardinality(Targets) + 1
\* design-level completeness: without faults and with placements of best spread the upload succeeds
\* whenever the threshold is reachable on this grid at all, and fails with the unhappiness class otherwise
Reachable == MaxMatching([s \in Targets |-> IF mode[s] = "writable" THEN Shares ELSE pre[s]])
XP_UnreachableNeverSucceeds == result = "success" => Reachable >= Happy
XP_ReachableSucceeds ==
  (BestSpreadOnly /\ phase = "done" /\ faults = 0 /\ Order # <<>>) => (Reachable >= Happy <=> result = "success")
=============================================================================
