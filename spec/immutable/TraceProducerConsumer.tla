---------------------- MODULE TraceProducerConsumer ----------------------
(* Trace validation of real reads against the contract of ProducerConsumer.tla.  A trace (harness/producer_driver.py)
   is one read(consumer, offset, size) of a real LiteralFileNode / ImmutableFileNode / MutableFileVersion on a SimGrid,
   recorded by a scripted adversarial consumer:

     consts: kind ("lit" | "chk" | "sdmf" | "mdmf"), content (the bytes of the file), off, sized, size (read(consumer,
             off, size if sized else None)), faulty (the harness injected server faults)
     events: see ProducerConsumer.tla; Wire(status, data) = the response as the HTTP client got it (web leg)

   The verdict is the first hard clause; without one, the first soft clause (in event order; the two about
   unregisterProducer, which only End can tell apart, last).  It is printed as "clause" or "clause:detail". *)
EXTENDS ProducerConsumer, Json, IOUtils, TLCExt

Traces == JsonDeserialize(IOEnv.TRACE_FILE)

VARIABLES tid, l, S, soft, bad
tvars == <<tid, l, S, soft, bad>>

Events == Traces[tid].events
Ev == Events[l]
C == Traces[tid].consts

\* [R] "start at 'offset' and contain 'size' bytes (or the remainder of the file if size==None)"
Want == IF C.sized THEN ReadAt(C.content, C.off, C.size) ELSE ReadAt(C.content, C.off, Len(C.content))

Name(c, d) == IF d = "" THEN c ELSE c \o ":" \o d

\* web leg: everything the gateway sent has reached the client and the read succeeded - the body of the response is the
\* requested range (the writes, as they come out of twisted.web on the wire)
WireStep == IF Ev.status \notin {200, 206} THEN PCHard(S, "PC_WireStatus")
            ELSE IF Ev.data # S.want THEN PCHard(S, "PC_WireIsRange")
            ELSE PCOk(S)

TraceInit ==
  /\ tid \in 1..Len(Traces)
  /\ l = 1
  /\ S = PCNew(Want, C.faulty)
  /\ soft = [c |-> "", l |-> 0]
  /\ bad = "none"

\* a hard clause stops the trace and makes TLC print the behaviour (TraceOK); a verdict reached at End is only
\* printed - the trace was consumed to its end
Reject(at, c) == /\ bad' = c /\ PrintT(<<"VF_REJECT", tid, at, c>>) /\ UNCHANGED <<S, soft, l>>
RejectSoft(at, c) == /\ PrintT(<<"VF_REJECT", tid, at, c>>) /\ l' = l + 1 /\ UNCHANGED <<S, soft, bad>>

TraceNext ==
  /\ bad = "none"
  /\ l <= Len(Events)
  /\ IF Ev.ev = "End"
       THEN LET h == PCEndHard(S, Ev)
                s == PCEndSoft(S, Ev) IN
            IF l # Len(Events) THEN Reject(l, "harness_end_not_last")
            ELSE IF h # "" THEN RejectSoft(l, h)
            ELSE IF soft.c # "" THEN RejectSoft(soft.l, soft.c)
            ELSE IF s.c # "" THEN RejectSoft(l, Name(s.c, s.d))
            ELSE /\ PrintT(<<"VF_ACCEPT", tid, l>>) /\ l' = l + 1 /\ UNCHANGED <<S, soft, bad>>
       ELSE LET r == IF Ev.ev = "Wire" THEN WireStep ELSE PCStep(S, Ev) IN
            IF r.c # "" /\ ~r.soft THEN Reject(l, r.c)
            ELSE IF l = Len(Events) THEN Reject(l, "harness_no_end_event")
            ELSE /\ S' = r.S /\ l' = l + 1 /\ bad' = "none"
                 /\ soft' = IF r.c # "" /\ soft.c = "" THEN [c |-> Name(r.c, r.d), l |-> l] ELSE soft
  /\ UNCHANGED tid

TraceSpec == TraceInit /\ [][TraceNext]_tvars
TraceOK == bad = "none"
=============================================================================
