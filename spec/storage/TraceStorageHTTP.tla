------------------------- MODULE TraceStorageHTTP -------------------------
(* Trace validation of the real HTTP storage server (HTTPServer over a real
   StorageServer, reached through treq's StubTreq) against StorageHTTP.tla.

   Events (harness/http_driver.py):
     Req      one HTTP request: the abstract request r (route, classes of the
              Authorization / X-Tahoe-Authorization headers, arguments), the status,
              the abstracted body, whether the raw body contained stored share bytes
              (hasdata), whether the digest of the whole storage directory is the same
              before and after (same), the share files of r.si read back (obs; left out when no file
              changed: then the Spec must not expect an observable change either).
              Optional d = [res, obs]: the same operation executed directly on a twin
              StorageServer (C31): its result and the twin's share files.
     Advance  virtual time passes on both servers (obsall: every storage index read back).
     ClientRead0  a zero-length read through the client classes and directly.
   The verdict for an event is the name of the first clause that fails. *)
EXTENDS StorageHTTP, Json, IOUtils, TLCExt

Traces == JsonDeserialize(IOEnv.TRACE_FILE)

VARIABLES tid, l, H, bad
tvars == <<tid, l, H, bad>>

Events == Traces[tid].events
Ev == Events[l]

InitState(c) == InitH(MkStorage(ToSet(c.sisI), ToSet(c.sisM), ToSet(c.shnums), c.capacity0, c.reserved, c.readonly))

(* ---- projection of the Spec state to what the harness reads back from the share files ---- *)
ObsImm(T, si) == [sh \in DOMAIN T.imm[si] |->
                    LET b == T.imm[si][sh] IN
                    [st |-> b.st, data |-> IF b.st = "final" THEN b.data ELSE <<>>,
                     leases |-> IF b.st = "final" THEN b.leases ELSE {}]]
ObsMut(T, si) == [sh \in DOMAIN T.mut[si] |-> [present |-> T.mut[si][sh].present, data |-> T.mut[si][sh].data,
                                                we |-> T.mut[si][sh].we, leases |-> T.mut[si][sh].leases]]
NormObsImm(o) == [sh \in DOMAIN o |-> [st |-> o[sh].st, data |-> o[sh].data, leases |-> ToSet(o[sh].leases)]]
NormObsMut(o) == [sh \in DOMAIN o |-> [present |-> o[sh].present, data |-> o[sh].data, we |-> o[sh].we,
                                         leases |-> ToSet(o[sh].leases)]]
ObsOK(T, si, o) == IF si \in DOMAIN T.imm THEN ObsImm(T, si) = NormObsImm(o)
                   ELSE IF si \in DOMAIN T.mut THEN ObsMut(T, si) = NormObsMut(o) ELSE TRUE
ObsProj(T, si) == IF si \in DOMAIN T.imm THEN ObsImm(T, si) ELSE IF si \in DOMAIN T.mut THEN ObsMut(T, si) ELSE <<>>
ObsAllOK(T, oa) == \A si \in DOMAIN oa : ObsOK(T, si, oa[si])

(* ---- JSON -> the values StorageHTTP.tla talks about ---- *)
NormA(ep, a) ==
  CASE ep = "alloc" -> [body |-> a.body, shnums |-> ToSet(a.shnums), size |-> a.size]
    [] ep = "rtw"   -> [body |-> a.body, tw |-> [sh \in DOMAIN a.tw |-> a.tw[sh]], rv |-> a.rv]
    [] OTHER        -> a
NormReq(r) == [ep |-> r.ep, auth |-> r.auth, hdrs |-> r.hdrs, si |-> r.si, sh |-> r.sh, a |-> NormA(r.ep, r.a)]
NormBody(b) ==
  CASE b.k = "shares"   -> [k |-> "shares", shares |-> ToSet(b.shares)]
    [] b.k = "alloc"    -> [k |-> "alloc", already |-> ToSet(b.already), allocated |-> ToSet(b.allocated)]
    [] b.k = "required" -> [k |-> "required", req |-> ToSet(b.req)]
    [] b.k = "rtw"      -> [k |-> "rtw", success |-> b.success, reads |-> [sh \in DOMAIN b.reads |-> b.reads[sh]]]
    [] OTHER            -> b
NormD(r, d) ==
  CASE r.ep \in {"ilist", "mlist"} -> [st |-> d.st, shares |-> ToSet(d.shares)]
    [] r.ep = "alloc" -> [st |-> d.st, already |-> ToSet(d.already)]
    [] r.ep = "rtw" /\ d.st = "ok" -> [st |-> d.st, success |-> d.success, reads |-> [sh \in DOMAIN d.reads |-> d.reads[sh]]]
    [] OTHER -> d

V(c, s) == [c |-> c, s |-> s]

StatusClause(r, stage, want, got) ==
  IF stage = "route" THEN "C30_route_status"
  ELSE IF stage = "swissnum" THEN "C30_NoAuth_status"
  ELSE IF stage = "secrets" THEN "C30_BadSecrets_status"
  ELSE IF want = 401 /\ r.ep \in {"write", "abort"} THEN "C30_UploadSecret_status"
  ELSE IF want = 401 /\ r.ep = "rtw" THEN "C30_WriteEnabler_status"
  ELSE IF got \in {400, 401} THEN "C30_spurious_rejection"
  ELSE "C31_http_status"
EffectClause(r, stage, want) ==
  IF stage \in {"route", "swissnum"} THEN "C30_NoAuthNoEffect"
  ELSE IF stage = "secrets" THEN "C30_BadSecretsNoEffect"
  ELSE IF want = 401 /\ r.ep \in {"write", "abort"} THEN "C30_UploadSecret_effect"
  ELSE IF want = 401 /\ r.ep = "rtw" THEN "C30_WriteEnabler_effect"
  ELSE "C31_http_rejected_changed_state"

VReq1(e, r) ==
  LET b == NormBody(e.body)
      alloc == IF r.ep = "alloc" /\ b.k = "alloc" THEN b.allocated ELSE {}
      stage == Stage(H, r)
      o == HandleWith(H, r, alloc)
      want == o.out.status
      \* which 4xx code a refusal carries is not part of C30: any client-error status is a refusal
      \* (and the unhandled-decoding 500 of the secrets stage, which does nothing either)
      statusok == \/ e.status = want
                  \/ (stage \in {"swissnum", "secrets"} /\ want >= 400 /\ e.status \in 400..499)
                  \/ (stage = "secrets" /\ want = 500 /\ e.status = 400)
      hasobs == "obs" \in DOMAIN e
  IN IF ~statusok THEN V(StatusClause(r, stage, want, e.status), H)
     ELSE IF ~SwissnumPresented(r.auth) /\ (e.hasdata \/ b # NoBody) THEN V("C30_NoAuthNoData", H)
     \* a rejected request leaves every file of the storage directory byte-identical (an accepted one that is a
     \* no-op on the abstract state may still rewrite a container: judged through obs below)
     ELSE IF o.next = H /\ ~e.same /\ (stage # "business" \/ want >= 300) THEN V(EffectClause(r, stage, want), H)
     ELSE IF r.ep = "alloc" /\ b.k = "alloc" /\ ~AllocChoiceOK(H, r, alloc) THEN V("C31_http_alloc_choice", H)
     ELSE IF b # o.out.body THEN V(IF stage = "business" THEN "C31_http_body" ELSE "C30_rejection_has_body", H)
     ELSE IF hasobs /\ ~ObsOK(o.next.S, r.si, e.obs) THEN V(IF o.next = H THEN EffectClause(r, stage, want) ELSE "C31_http_state", H)
     ELSE IF e.same /\ ObsProj(o.next.S, r.si) # ObsProj(H.S, r.si) THEN V("C31_http_state_not_changed", H)
     ELSE IF "d" \in DOMAIN e THEN
          (IF ~Comparable(H, r) THEN V("harness_twin_not_comparable", H)
           ELSE IF NormD(r, e.d.res) # DirectView(H, r) THEN V("C31_direct_result", H)
           ELSE IF ClientView(r, [status |-> e.status, body |-> b]) # NormD(r, e.d.res) THEN V("C31_agree_result", H)
           ELSE IF r.ep = "alloc" /\ ToSet(e.d.res.allocated) # alloc THEN V("C31_agree_allocated", H)
           ELSE IF "obs" \in DOMAIN e.d /\ ~ObsOK(o.next.S, r.si, e.d.obs) THEN V("C31_agree_state", H)
           ELSE IF e.d.same /\ ObsProj(o.next.S, r.si) # ObsProj(H.S, r.si) THEN V("C31_agree_state_not_changed", H)
           ELSE V("", o.next))
     ELSE V("", o.next)

\* The statement speaks of requests "without the correct swissnum".  A request that presents the
\* correct swissnum TOGETHER WITH other Authorization values is on neither side: the server may
\* serve it (then it is judged as an authorised request) or refuse it (then nothing may happen).
AuthAmbiguous(auth) == SwissnumPresented(auth) /\ auth # <<"correct">>
\* Likewise for the secrets: the statement requires requests with *missing or malformed* secrets to be
\* refused.  A request whose headers are all well formed and cover the required kinds, but which carries
\* a kind twice with different values or a kind the route does not need, is on neither side: it may be
\* refused (nothing may happen) or served according to any one of the presented values.
WellFormedHdrs(h) == \A i \in 1..Len(h) : h[i].val \notin {"bad", "nonutf8"} /\ h[i].kind \in Kinds
SecretsAmbiguous(h, req) ==
  /\ WellFormedHdrs(h) /\ req \subseteq HdrKinds(h)
  /\ (HdrKinds(h) # req \/ \E k \in req : Cardinality(Presented(h, k)) > 1)
\* canonical header lists: one header per required kind, with one of the values presented for it
RECURSIVE CanonHdrs(_, _)
CanonHdrs(h, ks) ==
  IF ks = {} THEN {<<>>}
  ELSE LET k == CHOOSE x \in ks : TRUE IN
       {<<[kind |-> k, val |-> v]>> \o rest : v \in Presented(h, k), rest \in CanonHdrs(h, ks \ {k})}
Refused(e, b) == e.status \in 400..499 /\ e.same /\ b = NoBody /\ ~e.hasdata
VReq2(e, r) ==
  LET b == NormBody(e.body) req == Required(r.ep) IN
  IF SecretsAmbiguous(r.hdrs, req)
    THEN (IF Refused(e, b) THEN V("", H)
          ELSE LET cands == {[r EXCEPT !.hdrs = hh] : hh \in CanonHdrs(r.hdrs, req)}
                   okc == {c \in cands : VReq1(e, c).c = ""}
               \* several readings may explain the answer and lead to different states (which of two
               \* upload secrets an allocation bound): all of them are followed (TraceNext branches)
               IN IF okc # {} THEN [c |-> "", s |-> VReq1(e, CHOOSE c \in okc : TRUE).s, alts |-> {VReq1(e, c).s : c \in okc}]
                  ELSE VReq1(e, CHOOSE c \in cands : TRUE))
    ELSE VReq1(e, r)
VReq(e) ==
  LET r == NormReq(e.r)
      b == NormBody(e.body)
  IN IF AuthAmbiguous(r.auth)
       THEN (IF Refused(e, b) THEN V("", H)
             ELSE VReq2(e, [r EXCEPT !.auth = <<"correct">>]))
       ELSE VReq2(e, r)

VAdvance(e) ==
  LET T == HAdvance(H, e.dt) IN
  IF e.crash # "" THEN V("C31_http_timeout_raised", H)
  ELSE IF ~ObsAllOK(T.S, e.obsall) THEN V("C31_http_state_after_timeout", H)
  ELSE IF "dobsall" \in DOMAIN e /\ ~ObsAllOK(T.S, e.dobsall) THEN V("C31_agree_state_after_timeout", H)
  ELSE V("", T)

\* the lease checker deleted what had expired (the server object itself was not involved): the clauses belong to
\* C26 (what a cycle removes); the requests that follow are judged against the state the Spec computes
VExpire(e) ==
  LET T == HExpire(H, e.dt) IN
  IF e.crash # "" THEN V("C26_http_cycle_raised", H)
  ELSE IF ~ObsAllOK(T.S, e.obsall) THEN V("C26_http_state_after_expiry", H)
  ELSE V("", T)

\* a read of length zero through the HTTP client: the statement asks for what the direct call gives (no bytes)
VClientRead0(e) ==
  LET r == NormReq(e.r) IN
  IF NormD(r, e.d.res) # DirectView(H, r) THEN V("C31_direct_result", H)
  ELSE IF e.got # "empty" THEN V("C31_zero_length_read", H)
  ELSE V("", H)

\* An authorised, well-formed request whose response is lost on the way back (the server has handled it).  The
\* statement's "applies all of its writes or none ... the answer reflects the state before the writes" and "the two
\* access paths agree" leave the client two honest outcomes: the call fails, or it reports the answer of the one
\* application that took place; either way both servers hold the state of exactly one application.
VReqLost(e) ==
  LET r == NormReq(e.r)
      b == NormBody(e.body)
      o == HandleWith(H, r, {})
      p == IF r.ep = "rtw" THEN "C24" ELSE "C31"
      hasobs == "obs" \in DOMAIN e
  IN IF ~Comparable(H, r) THEN V("harness_twin_not_comparable", H)
     ELSE IF NormD(r, e.d.res) # DirectView(H, r) THEN V("C31_direct_result", H)
     ELSE IF e.how = "ok" /\ ClientView(r, [status |-> e.status, body |-> b]) # NormD(r, e.d.res)
            THEN V(p \o "_lost_response_answer", H)
     ELSE IF hasobs /\ ~ObsOK(o.next.S, r.si, e.obs) THEN V(p \o "_lost_response_state", H)
     ELSE IF e.same /\ ObsProj(o.next.S, r.si) # ObsProj(H.S, r.si) THEN V(p \o "_lost_response_state", H)
     ELSE IF "obs" \in DOMAIN e.d /\ ~ObsOK(o.next.S, r.si, e.d.obs) THEN V("C31_agree_state", H)
     ELSE IF e.d.same /\ ObsProj(o.next.S, r.si) # ObsProj(H.S, r.si) THEN V("C31_agree_state_not_changed", H)
     ELSE V("", o.next)

\* slot_readv through the client's IStorageServer adapter over HTTP: the answer of Storage.tla's ReadvRes, which is also
\* what the directly driven twin answers (C31); every share reads back its own bytes at the requested offsets (C23)
VAReadv(e) ==
  LET shs == ToSet(e.shares)
      want == ReadvRes(H.S, e.si, shs, e.rv)
      NormR(r) == [sh \in DOMAIN r |-> r[sh]]
  IN IF NormR(e.d) # want THEN V("C31_direct_result", H)
     ELSE IF e.how # "ok" THEN V("C31_adapter_readv_failed", H)
     ELSE IF NormR(e.res) # want THEN V("C31_adapter_readv", H)
     ELSE V("", H)

\* one read-test-write call naming two shares, megabytes of data, and a test on the second share that fails (the data is not
\* in the trace): RTW with a failing test changes nothing and reports failure - through the client's adapter and directly
VABigRTW(e) ==
  IF e.how # "ok" THEN V("C24_adapter_big_request_failed", H)
  ELSE IF e.success \/ ~e.same THEN V("C24_adapter_big_request_not_atomic", H)
  ELSE IF e.dsuccess # FALSE \/ ~e.dsame THEN V("C24_direct_big_request_not_atomic", H)
  ELSE V("", H)

\* a zero-delay call of the server (a timer, an eventual-send) raised while the request was being served
RaisedClause == IF Traces[tid].consts.mode = "authz" THEN "C30_server_side_exception" ELSE "C31_server_side_exception"
Verdict(e) ==
  CASE "raised" \in DOMAIN e -> V(RaisedClause, H)
    [] e.ev = "Req"     -> VReq(e)
    [] e.ev = "AReadv"  -> VAReadv(e)
    [] e.ev = "ReqLost" -> VReqLost(e)
    [] e.ev = "ClientRead0" -> VClientRead0(e)
    [] e.ev = "Advance" -> VAdvance(e)
    [] e.ev = "Expire"  -> VExpire(e)
    [] e.ev = "ABigRTW" -> VABigRTW(e)
    [] OTHER            -> V("unknown_event", H)

TraceInit ==
  /\ tid \in 1..Len(Traces)
  /\ l = 1
  /\ H = InitState(Traces[tid].consts)
  /\ bad = "none"

UpOK(T) == \A p \in DOMAIN T.up : T.up[p] # "none" => T.S.imm[p[1]][p[2]].st = "incoming"

TraceNext ==
  /\ bad = "none"
  /\ l <= Len(Events)
  /\ LET v == Verdict(Ev)
         c == IF v.c # "" THEN v.c
              ELSE IF ~StateOK(v.s.S) \/ ~UpOK(v.s) THEN "StateOK"
              ELSE ""
         alts == IF "alts" \in DOMAIN v THEN v.alts ELSE {v.s}
     IN IF c = ""
          THEN /\ H' \in alts /\ l' = l + 1 /\ bad' = "none"
               /\ (l = Len(Events) => PrintT(<<"VF_ACCEPT", tid, l>>))
          ELSE /\ bad' = c /\ UNCHANGED <<H, l>>
               /\ PrintT(<<"VF_REJECT", tid, l, c>>)
  /\ UNCHANGED tid

TraceSpec == TraceInit /\ [][TraceNext]_tvars
TraceOK == bad = "none"
=============================================================================
