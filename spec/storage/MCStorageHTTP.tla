--------------------------- MODULE MCStorageHTTP ---------------------------
(* Model checking of the HTTP storage API design (StorageHTTP.tla): every route
   x every class of Authorization / X-Tahoe-Authorization headers, interleaved
   with a legitimate upload in progress, a completed share and a mutable slot.
   The properties are stated over the request that was made and the two
   states around it, not over the structure of HandleWith. *)
EXTENDS StorageHTTP

CONSTANTS Shares, Size, MaxOps, USecrets, Enablers, AuthMode, HdrMode, Eps

SI == "i0"
SM == "m0"
VARIABLES H, nops, last, acked
vars == <<H, nops, last, acked>>

Pairs == {<<SI, sh>> : sh \in Shares}
S0 == MkStorage({SI}, {SM}, Shares, 1000, 0, FALSE)

Hd(k, v) == [kind |-> k, val |-> v]
\* an upload of share "0" by a legitimate client (secret u1) with its first byte written, share "1"
\* complete, and a mutable share "0" with enabler wA
Prepared ==
  LET a == [ep |-> "alloc", auth |-> <<"correct">>, hdrs |-> <<Hd("rs", "r0"), Hd("cs", "c0"), Hd("us", "u1")>>, si |-> SI, sh |-> "0",
            a |-> [body |-> "ok", shnums |-> {"0", "1"}, size |-> Size]]
      H1 == HandleWith(InitH(S0), a, {"0", "1"}).next
      w(sh, off, d) == [ep |-> "write", auth |-> <<"correct">>, hdrs |-> <<Hd("us", "u1")>>, si |-> SI, sh |-> sh,
                        a |-> [cr |-> "ok", off |-> off, data |-> d]]
      H2 == HandleWith(H1, w("0", 0, <<1>>), {}).next
      H3 == HandleWith(H2, w("1", 0, [i \in 1..Size |-> 1]), {}).next
      m == [ep |-> "rtw", auth |-> <<"correct">>, hdrs |-> <<Hd("rs", "r0"), Hd("cs", "c0"), Hd("we", "wA")>>, si |-> SM, sh |-> "0",
            a |-> [body |-> "ok", tw |-> [s \in {"0"} |-> [test |-> <<>>, writes |-> <<[off |-> 0, data |-> <<1, 0>>]>>, newlen |-> -1]], rv |-> <<>>]]
  IN HandleWith(H3, m, {}).next

Init ==
  /\ H \in {InitH(S0), Prepared}
  /\ nops = 0
  /\ last = [kind |-> "init"]
  /\ acked = [p \in Pairs |-> IF H.S.imm[p[1]][p[2]].st = "absent" THEN {} ELSE H.S.imm[p[1]][p[2]].written \cup (IF H.S.imm[p[1]][p[2]].st = "final" THEN 0..(Size - 1) ELSE {})]

(* ------------------------- the space of requests ------------------------- *)
AuthClasses == IF AuthMode = "all"
                 THEN {<<>>, <<"wrong">>, <<"malformed">>, <<"nonutf8">>, <<"correct">>, <<"correct", "wrong">>, <<"wrong", "correct">>, <<"correct", "nonutf8">>}
                 ELSE IF AuthMode = "few" THEN {<<>>, <<"wrong">>, <<"correct">>}
                 ELSE {<<"correct">>}
U1 == CHOOSE v \in USecrets : TRUE
W1 == CHOOSE v \in Enablers : TRUE
\* header classes of one kind: missing, malformed, each value, duplicates (the later one wins), value + malformed
FullClasses(k) ==
  CASE k = "rs" -> {<<>>, <<Hd(k, "bad")>>, <<Hd(k, "r0")>>, <<Hd(k, "r0"), Hd(k, "bad")>>}
    [] k = "cs" -> {<<>>, <<Hd(k, "bad")>>, <<Hd(k, "c0")>>}
    [] k = "us" -> {<<>>, <<Hd(k, "bad")>>, <<Hd(k, "nonutf8")>>, <<Hd(k, U1), Hd(k, "bad")>>}
                   \cup {<<Hd(k, v)>> : v \in USecrets} \cup {<<Hd(k, v1), Hd(k, v2)>> : v1, v2 \in USecrets}
    [] k = "we" -> {<<>>, <<Hd(k, "bad")>>} \cup {<<Hd(k, v)>> : v \in Enablers} \cup {<<Hd(k, v1), Hd(k, v2)>> : v1, v2 \in Enablers}
One(k) == CASE k = "rs" -> "r0" [] k = "cs" -> "c0" [] k = "us" -> U1 [] k = "we" -> W1
Vals(k) == CASE k = "rs" -> {"r0"} [] k = "cs" -> {"c0"} [] k = "us" -> USecrets [] k = "we" -> Enablers
\* full: every class for the required kinds, present/absent for the others;
\* otherwise: nothing, or one well-formed value per required kind
HdrSets(ep, full) ==
  LET C(k) == IF full /\ k \in Required(ep) THEN FullClasses(k)
              ELSE IF full THEN {<<>>, <<Hd(k, One(k))>>}
              ELSE IF k \in Required(ep) THEN {<<>>} \cup {<<Hd(k, v)>> : v \in Vals(k)} ELSE {<<>>}
  IN {a \o b \o c \o d : a \in C("rs"), b \in C("cs"), c \in C("us"), d \in C("we")} \cup {<<Hd("unknown", "u1")>>}

TW1 == [test |-> <<>>, writes |-> <<[off |-> 0, data |-> <<0>>]>>, newlen |-> -1]
TW2 == [test |-> <<[off |-> 0, len |-> 1, spec |-> <<0>>]>>, writes |-> <<[off |-> 1, data |-> <<1>>]>>, newlen |-> -1]
TW3 == [test |-> <<>>, writes |-> <<>>, newlen |-> 0]
Args(ep) ==
  CASE ep = "alloc" -> {[body |-> "ok", shnums |-> s, size |-> Size] : s \in (SUBSET Shares) \ {{}}} \cup {[body |-> "bad", shnums |-> Shares, size |-> Size]}
    [] ep = "write" -> {[cr |-> "ok", off |-> o, data |-> d] : o \in 0..1, d \in {<<1>>, <<0>>}}
                       \cup {[cr |-> "ok", off |-> 1, data |-> <<1, 1>>], [cr |-> "none", off |-> 0, data |-> <<1>>]}
    [] ep \in {"iread", "mread"} -> {[rng |-> "ok", off |-> o, len |-> n] : o \in {0, 1, Size}, n \in {1, Size + 1}}
                                    \cup {[rng |-> "ok", off |-> 0, len |-> 0]} \cup {[rng |-> g, off |-> 0, len |-> 0] : g \in {"none", "bad"}}
    [] ep \in {"icorrupt", "mcorrupt"} -> {[body |-> b] : b \in {"ok", "bad"}}
    [] ep = "rtw" -> {[body |-> "ok", tw |-> [s \in {"0"} |-> t], rv |-> rv] : t \in {TW1, TW2, TW3}, rv \in {<<>>, <<[off |-> 0, len |-> 2]>>}}
                     \cup {[body |-> "ok", tw |-> <<>>, rv |-> <<[off |-> 1, len |-> 1]>>], [body |-> "bad", tw |-> <<>>, rv |-> <<>>]}
    [] OTHER -> {[none |-> TRUE]}
IsMut(ep) == ep \in {"rtw", "mread", "mlist", "mcorrupt"}
ShOf(ep) == IF ep \in {"write", "abort", "iread", "icorrupt", "mread", "mcorrupt"} THEN Shares ELSE {"0"}

WriteAcked(r, out) == r.ep = "write" /\ out.status \in {200, 201}

DoRequest ==
  /\ nops < MaxOps
  /\ \E ep \in Eps, au \in AuthClasses :
       \E sh \in ShOf(ep) :
       \E h \in HdrSets(ep, au = <<"correct">> /\ HdrMode = "full"), a \in Args(ep) :
         LET r == [ep |-> ep, auth |-> au, hdrs |-> h, si |-> IF IsMut(ep) THEN SM ELSE SI, sh |-> sh, a |-> a]
             choices == IF ep = "alloc" /\ Stage(H, r) = "business" /\ a.body = "ok"
                          THEN {al \in SUBSET AllocCandidates(H.S, r.si, a.shnums) : AllocChoiceOK(H, r, al)} ELSE {{}}
         IN \E al \in choices :
              LET o == HandleWith(H, r, al) IN
              /\ nops' = nops + 1
              /\ H' = o.next
              /\ last' = [kind |-> "req", r |-> r, out |-> o.out, cmp |-> Comparable(H, r)]
              /\ acked' = [p \in Pairs |->
                             IF WriteAcked(r, o.out) /\ p = <<r.si, r.sh>> THEN acked[p] \cup Span(a.off, Len(a.data))
                             ELSE IF o.next.S.imm[p[1]][p[2]].st = "absent" \/ (ep = "alloc" /\ p[2] \in al) THEN {}
                             ELSE acked[p]]

DoAdvance ==
  /\ nops < MaxOps
  /\ H.S.clock < 3000
  /\ nops' = nops + 1
  /\ H' = HAdvance(H, 1300)
  /\ last' = [kind |-> "advance"]
  /\ acked' = [p \in Pairs |-> IF H'.S.imm[p[1]][p[2]].st = "absent" THEN {} ELSE acked[p]]

\* more than a lease duration passes and the lease checker runs: whatever was stored is gone, and what is stored
\* afterwards (possibly under another write enabler) is protected like any other share
DoExpire ==
  /\ nops < MaxOps
  /\ H.S.clock < 3000
  /\ nops' = nops + 1
  /\ H' = HExpire(H, LeaseDuration + 1300)
  /\ last' = [kind |-> "expire"]
  /\ acked' = [p \in Pairs |-> IF H'.S.imm[p[1]][p[2]].st = "absent" THEN {} ELSE acked[p]]

Next == DoRequest \/ DoAdvance \/ DoExpire
Spec == Init /\ [][Next]_vars

(* ------------------------------ properties ------------------------------ *)
IsReq == last.kind = "req"
IsReq1 == last'.kind = "req"
Inv_StateOK == StateOK(H.S) /\ \A p \in Pairs : (H.up[p] # "none") => H.S.imm[p[1]][p[2]].st = "incoming"

\* C30: a request that does not carry the server's swissnum changes nothing ...
C30_NoAuthNoEffect == [][(IsReq1 /\ ~SwissnumPresented(last'.r.auth)) => H' = H]_vars
\* ... and is given no share data (no body at all), with a 4xx status
C30_NoAuthNoData == [][(IsReq1 /\ ~SwissnumPresented(last'.r.auth)) =>
                          /\ last'.out.body = NoBody /\ ~CarriesData(last'.out)
                          /\ last'.out.status \in {400, 401, 404}]_vars
\* C30: missing or malformed secrets: rejected, nothing changes
C30_BadSecretsNoEffect ==
  [][(IsReq1 /\ last'.r.ep \in Endpoints /\ ~SecretsWellFormed(last'.r.hdrs, Required(last'.r.ep)))
        => (H' = H /\ last'.out.status \in {400, 401, 500} /\ last'.out.body = NoBody)]_vars
\* C30: whatever happens to an upload in progress (bytes, completion, abort) is caused by a write/abort
\* request that presented that upload's secret
UploadView(b) == [st |-> b.st, written |-> b.written, data |-> b.data]
C30_UploadSecret ==
  [][\A p \in Pairs :
        (IsReq1 /\ H.up[p] # "none" /\ UploadView(H.S.imm[p[1]][p[2]]) # UploadView(H'.S.imm[p[1]][p[2]]))
          => /\ last'.r.ep \in {"write", "abort"} /\ <<last'.r.si, last'.r.sh>> = p
             /\ H.up[p] \in Presented(last'.r.hdrs, "us")]_vars
\* C30: the bytes or the existence of an existing mutable share change only under its write enabler
C30_WriteEnabler ==
  [][\A sh \in Shares :
        (IsReq1 /\ H.S.mut[SM][sh].present
           /\ (H'.S.mut[SM][sh].data # H.S.mut[SM][sh].data \/ ~H'.S.mut[SM][sh].present))
          => last'.r.ep = "rtw" /\ H.S.mut[SM][sh].we \in Presented(last'.r.hdrs, "we")]_vars

\* C31: the HTTP answer, read the way the client reads it, is the answer of the direct call on the same state
C31_Agree == [][(IsReq1 /\ last'.cmp) => ClientView(last'.r, last'.out) = DirectView(H, last'.r)]_vars
\* C31: completion detection: 201 exactly when every byte has been acknowledged; a share is visible only then
C31_Completion ==
  /\ \A p \in Pairs : H.S.imm[p[1]][p[2]].st = "final" => acked[p] = 0..(H.S.imm[p[1]][p[2]].size - 1)
  /\ \A p \in Pairs : H.S.imm[p[1]][p[2]].st = "incoming" => acked[p] # 0..(H.S.imm[p[1]][p[2]].size - 1)
C31_CompletionAnswer ==
  [][/\ (IsReq1 /\ last'.r.ep = "write" /\ last'.out.status = 201) => H'.S.imm[last'.r.si][last'.r.sh].st = "final"
     /\ (IsReq1 /\ last'.r.ep = "write" /\ last'.out.status = 200) =>
           /\ H'.S.imm[last'.r.si][last'.r.sh].st = "incoming"
           /\ last'.out.body.req = (0..(Size - 1)) \ acked'[<<last'.r.si, last'.r.sh>>]]_vars
\* C31: range conversion: bytes off .. off+len-1 clipped at the end of the share, 204 when nothing is left
RangeOK(d, a, out) ==
  IF a.off >= Len(d) THEN out.status = 204
  ELSE /\ out.status = 206
       /\ Len(out.body.data) = Min(a.len, Len(d) - a.off)
       /\ \A i \in 1..Len(out.body.data) : out.body.data[i] = d[a.off + i]
C31_RangeRead ==
  [][(IsReq1 /\ last'.cmp /\ last'.r.ep \in {"iread", "mread"} /\ last'.out.status # 404) =>
       RangeOK(IF last'.r.ep = "iread" THEN H.S.imm[last'.r.si][last'.r.sh].data ELSE H.S.mut[last'.r.si][last'.r.sh].data,
               last'.r.a, last'.out)]_vars

\* `last` is a history variable that only the action properties read: it is left out of the state identity
\* (TLC checks action properties on every transition, also those into states already seen)
View == <<H, nops, acked>>
=============================================================================
