------------------------------ MODULE Storage ------------------------------
(* One Tahoe-LAFS storage server (allmydata/storage/server.py, immutable.py,
   mutable.py, lease.py) as operators over an explicit state value S.

   S == [imm, mut, clock, capacity, reserved, readonly]
     imm[si][sh]  immutable bucket: absent -> incoming -> final | absent
     mut[si][sh]  mutable share: growable byte array + write enabler
     clock        the server's clock (seconds)
     capacity     size of the (simulated) disk, chosen by the environment; the disk's
                  free space is capacity minus the share bytes actually written
     reserved     the configured reserved_space
     readonly     readonly_storage

   Every public entry point of the server is one operator  XxxRes(S, args)
   (the answer the client gets) and one operator Xxx(S, args) (the state after
   the call).  The model-checking module MCStorage turns them into actions and
   the trace module TraceStorage checks a recorded call of the real server
   against them, so design and conformance share one definition.
   Properties: C22 (immutable share semantics), C23/C24 (mutable containers,
   read-test-write), C25 (leases), C28 (space reservations). *)
EXTENDS Common

LeaseDuration == 2678400      \* 31 days, DEFAULT_RENEWAL_TIME
BucketTimeout == 1800         \* BucketWriter: 30 minutes without a write
ImmLeaseSize  == 72
MutLeaseSize  == 92

(* ------------------------------ leases ---------------------------------- *)
\* a lease set is a set of records [rs, cs, exp]
HasLease(L, rs) == \E l \in L : l.rs = rs
Lease(rs, cs, exp) == [rs |-> rs, cs |-> cs, exp |-> exp]
\* renew_lease: the expiry only ever moves forward (no backdating)
RenewIn(L, rs, exp) == {IF l.rs = rs /\ exp > l.exp THEN [l EXCEPT !.exp = exp] ELSE l : l \in L}
AddOrRenew(L, rs, cs, exp) == IF HasLease(L, rs) THEN RenewIn(L, rs, exp) ELSE L \cup {Lease(rs, cs, exp)}

(* ------------------------- immutable buckets ---------------------------- *)
AbsentB == [st |-> "absent", size |-> 0, written |-> {}, data |-> <<>>, leases |-> {},
            wid |-> "none", conn |-> "none", deadline |-> 0, used |-> 0]

Incoming(S) == {<<si, sh>> \in UNION {{<<i, s>> : s \in DOMAIN S.imm[i]} : i \in DOMAIN S.imm} :
                   S.imm[si][sh].st = "incoming"}
\* StorageServer.allocated_size(): sum of the sizes of the uploads in progress
RECURSIVE SumSizes(_, _)
SumSizes(S, P) == IF P = {} THEN 0
                  ELSE LET p == CHOOSE q \in P : TRUE IN S.imm[p[1]][p[2]].size + SumSizes(S, P \ {p})
\* the two ends of any sound accounting of the uploads in progress: what they were promised
\* (Full, what StorageServer.allocated_size() reports today) and what they can still consume (Need)
InProgress(S) == SumSizes(S, Incoming(S))
Full(S) == InProgress(S)
RECURSIVE SumNeed(_, _)
SumNeed(S, P) == IF P = {} THEN 0
                 ELSE LET p == CHOOSE q \in P : TRUE
                      IN (S.imm[p[1]][p[2]].size - Cardinality(S.imm[p[1]][p[2]].written)) + SumNeed(S, P \ {p})
Need(S) == SumNeed(S, Incoming(S))

\* the simulated disk: share bytes actually written (sparse files: holes cost nothing)
AllBuckets(S) == UNION {{<<i, s>> : s \in DOMAIN S.imm[i]} : i \in DOMAIN S.imm}
RECURSIVE SumUsed(_, _)
SumUsed(S, P) == IF P = {} THEN 0
                 ELSE LET p == CHOOSE q \in P : TRUE
                          b == S.imm[p[1]][p[2]]
                      IN (IF b.st = "incoming" THEN Cardinality(b.written) ELSE b.used) + SumUsed(S, P \ {p})
Used(S) == SumUsed(S, AllBuckets(S))
\* fileutil.get_available_space(sharedir, reserved_space), 0 for a read-only server
AvailableSpace(S) == IF S.readonly THEN 0 ELSE Max(0, S.capacity - Used(S) - S.reserved)

FinalShares(S, si) == {sh \in DOMAIN S.imm[si] : S.imm[si][sh].st = "final"}

\* shares of the request that could get a new BucketWriter
AllocCandidates(S, si, shnums) == {sh \in shnums : S.imm[si][sh].st = "absent"}
\* how many new buckets of `size` must at least be accepted: those that fit even when every upload
\* in progress is charged its full allocated size (the code's accounting: remaining = available -
\* allocated_size(), each accepted bucket takes `size` more).  A server refusing these would not be
\* releasing reservations.
AllocCount(S, si, shnums, size) ==
  LET rem == AvailableSpace(S) - Full(S)
      fit == IF rem < size THEN 0 ELSE IF size = 0 THEN Cardinality(AllocCandidates(S, si, shnums)) ELSE rem \div size
  IN Min(Cardinality(AllocCandidates(S, si, shnums)), fit)

\* C28, the statement itself: what is accepted, together with what the uploads in progress can still
\* consume, fits in the available space.  Any accounting between Need and Full satisfies both bounds.
C28_NoOvercommit(S, size, allocated) ==
  allocated # {} => Need(S) + size * Cardinality(allocated) <= AvailableSpace(S)

\* the answer must name all final shares, and a set of new buckets that is a subset of the
\* candidates (which of them is the iteration order's business), at least as many as fit under
\* the conservative accounting and never more than fit at all
AllocResOK(S, si, shnums, size, already, allocated) ==
  /\ already = FinalShares(S, si)
  /\ allocated \subseteq AllocCandidates(S, si, shnums)
  /\ Cardinality(allocated) >= AllocCount(S, si, shnums, size)
  /\ C28_NoOvercommit(S, size, allocated)

\* what allocated_size() may report: between what the uploads can still consume and what they were promised
InProgressReportOK(S, n) == Need(S) <= n /\ n <= Full(S)

\* adding a lease to an existing share needs room for the lease record
AllocNeedsLeaseSpace(S, si, rs) ==
  \E sh \in FinalShares(S, si) : ~HasLease(S.imm[si][sh].leases, rs)

\* wids: function allocated-share -> writer id chosen by the caller
Allocate(S, si, rs, cs, size, conn, wids) ==
  LET exp == S.clock + LeaseDuration
      newb(sh) == [st |-> "incoming", size |-> size, written |-> {}, data |-> Zeros(size),
                   leases |-> {Lease(rs, cs, exp)}, wid |-> wids[sh], conn |-> conn,
                   deadline |-> S.clock + BucketTimeout, used |-> 0]
      upd(sh) == LET b == S.imm[si][sh] IN
                 IF sh \in DOMAIN wids THEN newb(sh)
                 ELSE IF b.st = "final" THEN [b EXCEPT !.leases = AddOrRenew(@, rs, cs, exp)]
                 ELSE b
  IN [S EXCEPT !.imm[si] = [sh \in DOMAIN S.imm[si] |-> upd(sh)]]

WriterAt(S, wid) == {p \in Incoming(S) : S.imm[p[1]][p[2]].wid = wid}

\* BucketWriter.write: conflict test first (only against ranges already written), then size
WriteRes(S, wid, off, data) ==
  IF WriterAt(S, wid) = {} THEN "closed"
  ELSE LET p == CHOOSE q \in WriterAt(S, wid) : TRUE
           b == S.imm[p[1]][p[2]]
       IN IF \E i \in 1..Len(data) : (off + i - 1) \in b.written /\ b.data[off + i] # data[i] THEN "conflict"
          ELSE IF off + Len(data) > b.size THEN "toolarge"
          ELSE "ok"
Write(S, wid, off, data) ==
  IF WriteRes(S, wid, off, data) = "closed" THEN S
  ELSE LET p == CHOOSE q \in WriterAt(S, wid) : TRUE
           b == S.imm[p[1]][p[2]]
           touched == [b EXCEPT !.deadline = S.clock + BucketTimeout]     \* the timer is reset first
       IN IF WriteRes(S, wid, off, data) # "ok" THEN [S EXCEPT !.imm[p[1]][p[2]] = touched]
          ELSE [S EXCEPT !.imm[p[1]][p[2]] =
                   [touched EXCEPT !.written = @ \cup Span(off, Len(data)),
                                   !.data = [i \in 1..b.size |-> IF (i - 1) \in Span(off, Len(data)) THEN data[i - off] ELSE b.data[i]]]]

Finalize(b) == [b EXCEPT !.st = "final", !.used = Cardinality(b.written), !.written = {}, !.wid = "none", !.conn = "none", !.deadline = 0]

CloseRes(S, wid) == IF WriterAt(S, wid) = {} THEN "closed" ELSE "ok"
Close(S, wid) ==
  IF WriterAt(S, wid) = {} THEN S
  ELSE LET p == CHOOSE q \in WriterAt(S, wid) : TRUE IN [S EXCEPT !.imm[p[1]][p[2]] = Finalize(@)]

\* abort of an already closed/aborted writer is a silent no-op
Abort(S, wid) ==
  IF WriterAt(S, wid) = {} THEN S
  ELSE LET p == CHOOSE q \in WriterAt(S, wid) : TRUE IN [S EXCEPT !.imm[p[1]][p[2]] = AbsentB]

\* virtual time passes: every upload whose timer runs out is aborted
Advance(S, dt) ==
  LET now == S.clock + dt IN
  [S EXCEPT !.clock = now,
            !.imm = [si \in DOMAIN S.imm |-> [sh \in DOMAIN S.imm[si] |->
                       LET b == S.imm[si][sh] IN IF b.st = "incoming" /\ b.deadline <= now THEN AbsentB ELSE b]]]

\* the connection that allocated the buckets goes away
Disconnect(S, conn) ==
  [S EXCEPT !.imm = [si \in DOMAIN S.imm |-> [sh \in DOMAIN S.imm[si] |->
                       LET b == S.imm[si][sh] IN IF b.st = "incoming" /\ b.conn = conn THEN AbsentB ELSE b]]]

\* get_buckets lists exactly the completed shares
GetBucketsRes(S, si) == FinalShares(S, si)
\* BucketReader.read: clipped at the allocated size
ReadRes(S, si, sh, off, len) == IF S.imm[si][sh].st # "final" THEN <<>> ELSE ReadAt(S.imm[si][sh].data, off, len)

(* --------------------------- mutable shares ----------------------------- *)
AbsentM == [present |-> FALSE, data |-> <<>>, we |-> "none", leases |-> {}]
ExistingM(S, si) == {sh \in DOMAIN S.mut[si] : S.mut[si][sh].present}

RECURSIVE ApplyWrites(_, _)
ApplyWrites(d, ws) == IF ws = <<>> THEN d ELSE ApplyWrites(WriteAt(d, ws[1].off, ws[1].data), Tail(ws))
\* newlen: -1 encodes None (no change); a larger length never extends
Truncate(d, nl) == IF nl < 0 \/ nl >= Len(d) THEN d ELSE SubSeq(d, 1, nl)

DataM(S, si, sh) == S.mut[si][sh].data           \* a missing share reads as empty
TestOK(S, si, sh, tv) == \A i \in 1..Len(tv) : ReadAt(DataM(S, si, sh), tv[i].off, tv[i].len) = tv[i].spec

\* tw: function from a subset of the share numbers to [test, writes, newlen]
EnablerOK(S, si, we) == \A sh \in ExistingM(S, si) : S.mut[si][sh].we = we
AllTests(S, si, tw) == \A sh \in DOMAIN tw : TestOK(S, si, sh, tw[sh].test)
ReadvOf(S, si, shs, rv) == [sh \in shs |-> [i \in 1..Len(rv) |-> ReadAt(S.mut[si][sh].data, rv[i].off, rv[i].len)]]

RTWStatus(S, si, we, tw) == IF ~EnablerOK(S, si, we) THEN "badwe" ELSE IF AllTests(S, si, tw) THEN "ok" ELSE "fail"
\* reads always reflect the state before the request, for every existing share
RTWReads(S, si, rv) == ReadvOf(S, si, ExistingM(S, si), rv)

RTW(S, si, we, rs, cs, tw, renew) ==
  IF RTWStatus(S, si, we, tw) # "ok" THEN S
  ELSE LET exp == S.clock + LeaseDuration
           news(sh) ==
             LET m == S.mut[si][sh] IN
             IF sh \notin DOMAIN tw THEN m
             ELSE IF tw[sh].newlen = 0 THEN AbsentM
             ELSE LET base == IF m.present THEN m ELSE [present |-> TRUE, data |-> <<>>, we |-> we, leases |-> {}]
                      d == Truncate(ApplyWrites(base.data, tw[sh].writes), tw[sh].newlen)
                  IN [base EXCEPT !.data = d,
                                  !.leases = IF renew THEN AddOrRenew(@, rs, cs, exp) ELSE @]
       IN [S EXCEPT !.mut[si] = [sh \in DOMAIN S.mut[si] |-> news(sh)]]

\* slot_readv: the named shares that exist (all of them for an empty list)
ReadvRes(S, si, shs, rv) ==
  ReadvOf(S, si, IF shs = {} THEN ExistingM(S, si) ELSE shs \cap ExistingM(S, si), rv)

(* ------------------- leases through the server API ---------------------- *)
\* one cycle of the lease checker with expiration enabled (mode "age", the leases' own duration): a completed
\* share none of whose leases is still valid is deleted; uploads in progress are not the crawler's business
AllExpired(L, now) == \A l \in L : l.exp < now
ExpireShares(S) ==
  [S EXCEPT !.imm = [si \in DOMAIN S.imm |-> [sh \in DOMAIN S.imm[si] |->
                       LET b == S.imm[si][sh] IN IF b.st = "final" /\ AllExpired(b.leases, S.clock) THEN AbsentB ELSE b]],
            !.mut = [si \in DOMAIN S.mut |-> [sh \in DOMAIN S.mut[si] |->
                       LET m == S.mut[si][sh] IN IF m.present /\ AllExpired(m.leases, S.clock) THEN AbsentM ELSE m]]]

IsMutableSI(S, si) == si \in DOMAIN S.mut
SharesWithLeases(S, si) == IF IsMutableSI(S, si) THEN ExistingM(S, si) ELSE FinalShares(S, si)
LeasesOf(S, si, sh) == IF IsMutableSI(S, si) THEN S.mut[si][sh].leases ELSE S.imm[si][sh].leases
SetLeases(S, si, f) ==   \* f: share -> new lease set, for the shares that carry leases
  IF IsMutableSI(S, si)
    THEN [S EXCEPT !.mut[si] = [sh \in DOMAIN S.mut[si] |-> IF sh \in DOMAIN f THEN [S.mut[si][sh] EXCEPT !.leases = f[sh]] ELSE S.mut[si][sh]]]
    ELSE [S EXCEPT !.imm[si] = [sh \in DOMAIN S.imm[si] |-> IF sh \in DOMAIN f THEN [S.imm[si][sh] EXCEPT !.leases = f[sh]] ELSE S.imm[si][sh]]]

AddLease(S, si, rs, cs) ==
  SetLeases(S, si, [sh \in SharesWithLeases(S, si) |-> AddOrRenew(LeasesOf(S, si, sh), rs, cs, S.clock + LeaseDuration)])

\* renew_lease: an error if there is no share, or some share has no such lease
RenewRes(S, si, rs) ==
  IF SharesWithLeases(S, si) # {} /\ \A sh \in SharesWithLeases(S, si) : HasLease(LeasesOf(S, si, sh), rs) THEN "ok" ELSE "error"
\* the fully specified cases: success renews everywhere; a secret no share knows changes nothing.
\* (a secret known to only some shares raises after renewing an iteration-order dependent
\* subset; the post-state is then only constrained by RenewPartialOK)
Renew(S, si, rs) ==
  SetLeases(S, si, [sh \in SharesWithLeases(S, si) |-> RenewIn(LeasesOf(S, si, sh), rs, S.clock + LeaseDuration)])
RenewUnknown(S, si, rs) == \A sh \in SharesWithLeases(S, si) : ~HasLease(LeasesOf(S, si, sh), rs)

(* --------------------------- state invariants --------------------------- *)
\* per-share sanity: what the properties say about any reachable state
BucketOK(b) ==
  /\ b.st \in {"absent", "incoming", "final"}
  /\ b.st = "absent" => b = AbsentB
  /\ b.st # "absent" => Len(b.data) = b.size
  /\ b.st = "incoming" => b.written \subseteq 0..(b.size - 1) /\ b.wid # "none"
  /\ \A l1 \in b.leases : \A l2 \in b.leases : l1.rs = l2.rs => l1 = l2          \* C25: no duplicate lease
MShareOK(m) ==
  /\ ~m.present => m = AbsentM
  /\ \A l1 \in m.leases : \A l2 \in m.leases : l1.rs = l2.rs => l1 = l2
StateOK(S) ==
  /\ \A si \in DOMAIN S.imm : \A sh \in DOMAIN S.imm[si] : BucketOK(S.imm[si][sh])
  /\ \A si \in DOMAIN S.mut : \A sh \in DOMAIN S.mut[si] : MShareOK(S.mut[si][sh])
  /\ \A p \in Incoming(S) : \A q \in Incoming(S) : S.imm[p[1]][p[2]].wid = S.imm[q[1]][q[2]].wid => p = q

\* C25 as a relation between consecutive states: no lease disappears, no expiry moves back
LeasesMonotone(L1, L2) == \A l \in L1 : \E m \in L2 : m.rs = l.rs /\ m.cs = l.cs /\ m.exp >= l.exp
=============================================================================
