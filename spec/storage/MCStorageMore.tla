--------------------------- MODULE MCStorageMore ---------------------------
(* Model checking of the advisory and version entry points (StorageMore.tla)
   interleaved with every entry point of MCStorage (allocate, write, close,
   abort, timeouts, disconnects, disk-space changes, leases, mutable writes).
   The properties are stated over the ghost `last` (what the client was told /
   what it asked) and the advisory directory `adv`, independently of the
   operators. *)
EXTENDS MCStorage, StorageMore

CONSTANTS RepLens,     \* sizes of report texts tried
          Reasons,     \* reason strings tried
          ReadOnlys,   \* configurations tried: subset of BOOLEAN (readonly_storage)
          AllOps       \* TRUE: every action of MCStorage; FALSE: only those that matter for advisories / version

VARIABLES adv,         \* the corruption-advisories directory: set of reports
          advlast      \* ghost: the last advise / version call [op, si, sh, replen, held, avail, res]
mvars == <<S, nw, nops, acked, closedOK, last, adv, advlast>>

\* as MCStorage!Init, with the configured read-only flag
InitM ==
  /\ \E ro \in ReadOnlys : S = [imm |-> [si \in SIsI |-> [sh \in Shares |-> AbsentB]],
          mut |-> [si \in SIsM |-> [sh \in Shares |-> AbsentM]],
          clock |-> 0, capacity |-> SetMax(FreeValues), reserved |-> 0, readonly |-> ro]
  /\ nw = 0 /\ nops = 0
  /\ acked = [b \in AllB |-> <<>>]
  /\ closedOK = {}
  /\ last = [op |-> "init", res |-> "", touched |-> {}, free |-> 0, size |-> 0]
  /\ adv = {}
  /\ advlast = [op |-> "none", si |-> "", sh |-> "", replen |-> 0, held |-> FALSE, avail |-> 0]

Types == {"immutable", "mutable"}

\* what a client can see of the share before it complains: listed by get_buckets / readable by slot_readv
Listed(si, sh) == IF si \in SIsI THEN sh \in GetBucketsRes(S, si) ELSE sh \in DOMAIN ReadvRes(S, si, {sh}, <<>>)

DoAdvise ==
  \E si \in SIsI \cup SIsM, sh \in Shares, type \in Types, reason \in Reasons, n \in RepLens :
    /\ Step("Advise", AdviseRes(S, si, sh, n), {}, Advise(S, si, sh, n))
    /\ adv' = AdviseAdv(adv, S, type, si, sh, reason, n)
    /\ advlast' = [op |-> "Advise", si |-> si, sh |-> sh, replen |-> n, held |-> Listed(si, sh), avail |-> AvailableSpace(S)]
    /\ UNCHANGED <<nw, acked, closedOK>>

\* through a BucketReader obtained from get_buckets: only for listed immutable shares
DoReaderAdvise ==
  \E si \in SIsI, reason \in Reasons, n \in RepLens :
  \E sh \in GetBucketsRes(S, si) :
    /\ Step("Advise", AdviseRes(S, si, sh, n), {}, Advise(S, si, sh, n))
    /\ adv' = AdviseAdv(adv, S, ReaderAdviseType, si, sh, reason, n)
    /\ advlast' = [op |-> "Advise", si |-> si, sh |-> sh, replen |-> n, held |-> TRUE, avail |-> AvailableSpace(S)]
    /\ UNCHANGED <<nw, acked, closedOK>>

DoVersion ==
  /\ Step("Version", "", {}, S)
  /\ advlast' = [op |-> "Version", si |-> "", sh |-> "", replen |-> 0, held |-> FALSE, avail |-> AvailableSpace(S)]
  /\ UNCHANGED <<adv, nw, acked, closedOK>>

Core ==
  \/ (Profile = "imm" /\ (DoAllocate \/ DoWrite \/ DoClose \/ DoAbort \/ DoSetFree))
  \/ (Profile = "mut" /\ DoRTW)
\* restart with the other readonly_storage setting (a server that already holds shares becomes read-only)
DoReconfigure ==
  /\ Step("Reconfigure", "", Incoming(S), Reconfigure(S, ~S.readonly))
  /\ advlast' = [advlast EXCEPT !.op = "other"]
  /\ closedOK' = closedOK \ Incoming(S)
  /\ UNCHANGED <<adv, nw, acked>>

NextM ==
  \/ ((IF AllOps THEN Next ELSE Core) /\ UNCHANGED adv /\ advlast' = [advlast EXCEPT !.op = "other"])
  \/ DoAdvise \/ DoReaderAdvise \/ DoVersion \/ DoReconfigure

SpecM == InitM /\ [][NextM]_mvars

(* ------------------------------ properties ------------------------------ *)
\* the storage-server invariants of MCStorage still hold with the new entry points
Inv_StateOK_More == StateOK(S)

\* a report is only ever recorded for a share a client could have read from this server
ADV_OnlyHeldShares ==
  [][adv' # adv => /\ advlast'.op = "Advise" /\ advlast'.held
                   /\ \E r \in adv' \ adv : r.si = advlast'.si /\ r.sh = advlast'.sh]_mvars
\* a complaint about a held share is recorded whenever the report fits the space left for shares
ADV_RecordedWhenItFits ==
  [][(advlast'.op = "Advise" /\ advlast'.held /\ advlast'.replen <= advlast'.avail)
        => (Cardinality(adv' \ adv) = 1 \/ \E r \in adv : r.si = advlast'.si /\ r.sh = advlast'.sh)]_mvars
\* a report never takes space the server does not have (reserved space, a full disk, a read-only server)
ADV_NeverBeyondSpace ==
  [][adv' # adv => (advlast'.replen <= advlast'.avail /\ ~S.readonly
                    /\ AvailableSpace(S') = advlast'.avail - advlast'.replen)]_mvars
\* advisories never change, add or remove share data or leases, nor the uploads in progress
ADV_NoShareChange ==
  [][advlast'.op = "Advise" => (S'.imm = S.imm /\ S'.mut = S.mut /\ S'.clock = S.clock)]_mvars
\* reports are never lost
ADV_Monotone == [][adv \subseteq adv']_mvars
\* the answer discloses nothing
ADV_AnswerIsNone == [][advlast'.op = "Advise" => last'.res = "none"]_mvars

\* version: read-only servers advertise no space
VER_ReadOnlyZero == S.readonly => (VersionRes(S).avail = 0 /\ VersionRes(S).maximm = 0)
\* version and allocation agree, in every reachable state
VER_AdvertisedIsAllocatable ==
  \A si \in SIsI : \A sh \in Shares : AdvertisedIsAllocatable(S, VersionRes(S), si, sh)
VER_NoOverAdvertise == NoOverAdvertise(S, VersionRes(S))
VER_RangeOK == VersionAvailOK(S, VersionRes(S).avail)
\* a restart with another setting keeps every completed share, every lease and every advisory
CFG_RestartKeepsShares ==
  [][last'.op = "Reconfigure" =>
       /\ adv' = adv
       /\ \A si \in SIsI : \A sh \in Shares : S.imm[si][sh].st = "final" => S'.imm[si][sh] = S.imm[si][sh]
       /\ S'.mut = S.mut
       /\ Incoming(S') = {}]_mvars
\* asking for the version changes nothing
VER_ReadOnlyCall == [][advlast'.op = "Version" => S' = S]_mvars
=============================================================================
