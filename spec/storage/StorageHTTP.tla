----------------------------- MODULE StorageHTTP -----------------------------
(* The HTTP storage API (allmydata/storage/http_server.py) as a layer over the
   storage server of Storage.tla.

   H == [S, up, adv]
     S    the storage server state (Storage.tla)
     up   UploadsInProgress: <<si, sh>> -> name of the upload secret of the
          BucketWriter the HTTP layer tracks for that share ("none" = not tracked)
     adv  number of corruption advisories written

   A request is a record
     [ep, auth, hdrs, si, sh, a]
     ep    the route (one per @_authorized_route of HTTPServer, "nosuch" = no route matches)
     auth  the values of the Authorization headers, abstracted to
           "correct" | "wrong" | "malformed" | "nonutf8", in order
     hdrs  the X-Tahoe-Authorization headers in order, [kind, val]:
           kind in Kinds or "unknown"; val = the name of a well-formed secret,
           "bad" (does not parse / empty / lease secret not 32 bytes) or "nonutf8"
     a     route-specific arguments (body, Range / Content-Range, vectors)

   HandleWith(H, r, allocated) is shaped like the code: route lookup, then
   _authorization_decorator (swissnum first, then _extract_secrets), then the
   route's business logic, which is the corresponding operator of Storage.tla.
   `allocated` resolves the only choice the server has (which of the candidate
   shares get a bucket when space is short).
   Properties: C30 (authorization), C31 (HTTP and direct access agree). *)
EXTENDS Storage

Kinds == {"rs", "cs", "us", "we"}
Required(ep) == CASE ep = "alloc" -> {"rs", "cs", "us"}
                  [] ep \in {"write", "abort"} -> {"us"}
                  [] ep = "lease" -> {"rs", "cs"}
                  [] ep = "rtw" -> {"rs", "cs", "we"}
                  [] OTHER -> {}
Endpoints == {"version", "alloc", "write", "abort", "ilist", "iread", "lease", "icorrupt",
              "rtw", "mread", "mlist", "mcorrupt"}

(* ----------------------- _authorization_decorator ----------------------- *)
\* getRawHeaders decodes every value (a non-UTF-8 one is a 400), then the *first* value is compared
AuthStatus(auth) == IF \E i \in 1..Len(auth) : auth[i] = "nonutf8" THEN 400
                    ELSE IF Len(auth) > 0 /\ auth[1] = "correct" THEN 0 ELSE 401
\* the statement's notion, independent of which header the code looks at
SwissnumPresented(auth) == \E i \in 1..Len(auth) : auth[i] = "correct"

\* _extract_secrets: every header must parse; a later header of the same kind replaces an earlier
\* one; the set of kinds must be exactly the required set
HdrNonUtf8(h) == \E i \in 1..Len(h) : h[i].val = "nonutf8"
HdrMalformed(h) == \E i \in 1..Len(h) : h[i].val = "bad" \/ h[i].kind \notin Kinds
HdrKinds(h) == {h[i].kind : i \in 1..Len(h)}
Eff(h, k) == h[SetMax({i \in 1..Len(h) : h[i].kind = k})].val
\* (a non-UTF-8 value escapes as an unhandled UnicodeDecodeError: 500, nothing done)
SecretsStatus(h, req) == IF HdrNonUtf8(h) THEN 500
                         ELSE IF HdrMalformed(h) \/ HdrKinds(h) # req THEN 400 ELSE 0
\* the statement's notion of "the secrets the route needs are there and well formed"
SecretsWellFormed(h, req) == /\ \A i \in 1..Len(h) : h[i].val \notin {"bad", "nonutf8"} /\ h[i].kind \in Kinds
                             /\ \A k \in req : k \in HdrKinds(h)
Presented(h, k) == {h[i].val : i \in {j \in 1..Len(h) : h[j].kind = k}}

(* ------------------------------- state ---------------------------------- *)
\* an empty storage server (the one place that names the fields of Storage.tla's S)
MkStorage(sisI, sisM, shnums, capacity, reserved, readonly) ==
  [imm |-> [si \in sisI |-> [sh \in shnums |-> AbsentB]],
   mut |-> [si \in sisM |-> [sh \in shnums |-> AbsentM]],
   clock |-> 0, capacity |-> capacity, reserved |-> reserved, readonly |-> readonly]
AllPairs(S) == UNION {{<<si, sh>> : sh \in DOMAIN S.imm[si]} : si \in DOMAIN S.imm}
InitH(S) == [S |-> S, up |-> [p \in AllPairs(S) |-> "none"], adv |-> 0]
HWid(si, sh) == "h_" \o si \o "_" \o sh
InDomI(H, si, sh) == si \in DOMAIN H.S.imm /\ sh \in DOMAIN H.S.imm[si]
InDomM(H, si, sh) == si \in DOMAIN H.S.mut /\ sh \in DOMAIN H.S.mut[si]
Tracked(H, si, sh) == InDomI(H, si, sh) /\ H.S.imm[si][sh].st = "incoming" /\ H.up[<<si, sh>>] # "none"
\* remove_write_bucket: the close handler forgets every bucket that is no longer being written
Clean(H) == [H EXCEPT !.up = [p \in DOMAIN H.up |-> IF H.S.imm[p[1]][p[2]].st = "incoming" THEN H.up[p] ELSE "none"]]
HAdvance(H, dt) == Clean([H EXCEPT !.S = Advance(H.S, dt)])
\* time passes and the lease checker then completes a cycle behind the HTTP server's back
HExpire(H, dt) == Clean([H EXCEPT !.S = ExpireShares(Advance(H.S, dt))])

NoBody == [k |-> "none"]
BytesBody(d) == [k |-> "bytes", data |-> d]
Rej(H, st) == [out |-> [status |-> st, body |-> NoBody], next |-> H]
Ans(H2, st, body) == [out |-> [status |-> st, body |-> body], next |-> H2]

(* --------------------------- business logic ----------------------------- *)
\* POST /immutable/<si>: a = [body, shnums, size]
AllocChoiceOK(H, r, allocated) ==
  AllocResOK(H.S, r.si, r.a.shnums, r.a.size, FinalShares(H.S, r.si), allocated)
HAlloc(H, r, allocated) ==
  LET S == H.S
      us == Eff(r.hdrs, "us")
      wids == [sh \in allocated |-> HWid(r.si, sh)]
      S2 == Allocate(S, r.si, Eff(r.hdrs, "rs"), Eff(r.hdrs, "cs"), r.a.size, "http", wids)
  IN IF r.a.body = "ctype" THEN Rej(H, 415)
     ELSE IF r.a.body # "ok" THEN Rej(H, 400)
     ELSE Ans([H EXCEPT !.S = S2,
                        !.up = [p \in DOMAIN H.up |-> IF p[1] = r.si /\ p[2] \in allocated THEN us ELSE H.up[p]]],
              200, [k |-> "alloc", already |-> FinalShares(S, r.si), allocated |-> allocated])

\* PATCH /immutable/<si>/<sh>: a = [cr, off, data]; the Content-Range is looked at before the secret
Complete(b) == b.written = 0..(b.size - 1)
HWrite(H, r) ==
  LET S == H.S  p == <<r.si, r.sh>> IN
  IF r.a.cr # "ok" \/ Len(r.a.data) = 0 THEN Rej(H, 416)
  ELSE IF Tracked(H, r.si, r.sh) /\ H.up[p] # Eff(r.hdrs, "us") THEN Rej(H, 401)     \* validate_upload_secret
  ELSE IF ~Tracked(H, r.si, r.sh) THEN Rej(H, 404)
  ELSE LET wid == S.imm[r.si][r.sh].wid
           wr == WriteRes(S, wid, r.a.off, r.a.data)
           S1 == Write(S, wid, r.a.off, r.a.data)
           b1 == S1.imm[r.si][r.sh]
       IN IF wr = "conflict" THEN Ans([H EXCEPT !.S = S1], 409, NoBody)
          ELSE IF wr = "toolarge" THEN Ans([H EXCEPT !.S = S1], 500, NoBody)     \* DataTooLargeError is not handled
          ELSE IF Complete(b1) THEN Ans(Clean([H EXCEPT !.S = Close(S1, wid)]), 201, [k |-> "required", req |-> {}])
          ELSE Ans([H EXCEPT !.S = S1], 200, [k |-> "required", req |-> (0..(b1.size - 1)) \ b1.written])

\* PUT /immutable/<si>/<sh>/abort
HAbort(H, r) ==
  LET S == H.S  p == <<r.si, r.sh>> IN
  IF Tracked(H, r.si, r.sh) /\ H.up[p] # Eff(r.hdrs, "us") THEN Rej(H, 401)
  ELSE IF ~Tracked(H, r.si, r.sh) THEN
         (IF InDomI(H, r.si, r.sh) /\ S.imm[r.si][r.sh].st = "final" THEN Rej(H, 405) ELSE Rej(H, 404))
  ELSE Ans(Clean([H EXCEPT !.S = Abort(S, S.imm[r.si][r.sh].wid)]), 200, NoBody)

\* read_range: a = [rng, off, len]; the client's Range header names bytes off .. off+len-1
ReadOut(H, present, data, a) ==
  IF ~present THEN Rej(H, 404)
  ELSE IF a.rng = "none" THEN Ans(H, 200, BytesBody(data))
  ELSE IF a.rng # "ok" \/ a.len <= 0 THEN Rej(H, 416)
  ELSE LET end == Min(a.off + a.len, Len(data)) IN
       IF a.off >= end THEN Ans(H, 204, NoBody)
       ELSE Ans(H, 206, BytesBody(SubSeq(data, a.off + 1, end)))

HIRead(H, r) == LET ok == InDomI(H, r.si, r.sh) /\ H.S.imm[r.si][r.sh].st = "final"
                IN ReadOut(H, ok, IF ok THEN H.S.imm[r.si][r.sh].data ELSE <<>>, r.a)
HMRead(H, r) == LET ok == InDomM(H, r.si, r.sh) /\ H.S.mut[r.si][r.sh].present
                IN ReadOut(H, ok, IF ok THEN H.S.mut[r.si][r.sh].data ELSE <<>>, r.a)

HIList(H, r) == Ans(H, 200, [k |-> "shares", shares |-> IF r.si \in DOMAIN H.S.imm THEN FinalShares(H.S, r.si) ELSE {}])
HMList(H, r) == Ans(H, 200, [k |-> "shares", shares |-> IF r.si \in DOMAIN H.S.mut THEN ExistingM(H.S, r.si) ELSE {}])

\* PUT /lease/<si>: 404 when the storage index has no share, else add_lease
KnownSI(H, si) == si \in DOMAIN H.S.imm \/ si \in DOMAIN H.S.mut
HLease(H, r) ==
  IF ~KnownSI(H, r.si) \/ SharesWithLeases(H.S, r.si) = {} THEN Rej(H, 404)
  ELSE Ans([H EXCEPT !.S = AddLease(H.S, r.si, Eff(r.hdrs, "rs"), Eff(r.hdrs, "cs"))], 204, NoBody)

\* POST .../corrupt: a = [body]; existence is tested before the body is read
HCorrupt(H, r, exists) ==
  IF ~exists THEN Rej(H, 404)
  ELSE IF r.a.body = "ctype" THEN Rej(H, 415)
  ELSE IF r.a.body # "ok" THEN Rej(H, 400)
  ELSE Ans([H EXCEPT !.adv = @ + 1], 200, NoBody)

\* POST /mutable/<si>/read-test-write: a = [body, tw, rv]; leases are renewed (renew_leases defaults to True)
HRTW(H, r) ==
  LET S == H.S
      we == Eff(r.hdrs, "we")
      st == RTWStatus(S, r.si, we, r.a.tw)
  IN IF r.a.body = "ctype" THEN Rej(H, 415)
     ELSE IF r.a.body # "ok" THEN Rej(H, 400)
     ELSE IF st = "badwe" THEN Rej(H, 401)
     ELSE Ans([H EXCEPT !.S = RTW(S, r.si, we, Eff(r.hdrs, "rs"), Eff(r.hdrs, "cs"), r.a.tw, TRUE)], 200,
              [k |-> "rtw", success |-> (st = "ok"), reads |-> RTWReads(S, r.si, r.a.rv)])

Business(H, r, allocated) ==
  CASE r.ep = "version"  -> Ans(H, 200, [k |-> "version"])
    [] r.ep = "alloc"    -> HAlloc(H, r, allocated)
    [] r.ep = "write"    -> HWrite(H, r)
    [] r.ep = "abort"    -> HAbort(H, r)
    [] r.ep = "ilist"    -> HIList(H, r)
    [] r.ep = "iread"    -> HIRead(H, r)
    [] r.ep = "lease"    -> HLease(H, r)
    [] r.ep = "icorrupt" -> HCorrupt(H, r, InDomI(H, r.si, r.sh) /\ H.S.imm[r.si][r.sh].st = "final")
    [] r.ep = "rtw"      -> HRTW(H, r)
    [] r.ep = "mread"    -> HMRead(H, r)
    [] r.ep = "mlist"    -> HMList(H, r)
    [] r.ep = "mcorrupt" -> HCorrupt(H, r, InDomM(H, r.si, r.sh) /\ H.S.mut[r.si][r.sh].present)

HandleWith(H, r, allocated) ==
  IF r.ep \notin Endpoints THEN Rej(H, IF r.a.route = "nomethod" THEN 405 ELSE 404)   \* werkzeug routing, before any check
  ELSE IF AuthStatus(r.auth) # 0 THEN Rej(H, AuthStatus(r.auth))
  ELSE IF SecretsStatus(r.hdrs, Required(r.ep)) # 0 THEN Rej(H, SecretsStatus(r.hdrs, Required(r.ep)))
  ELSE Business(H, r, allocated)

\* which stage decides the answer (used to name verdict clauses)
Stage(H, r) == IF r.ep \notin Endpoints THEN "route"
               ELSE IF AuthStatus(r.auth) # 0 THEN "swissnum"
               ELSE IF SecretsStatus(r.hdrs, Required(r.ep)) # 0 THEN "secrets"
               ELSE "business"

\* does the answer carry share data?
CarriesData(out) == (out.body.k = "bytes" /\ out.body.data # <<>>)
                    \/ (out.body.k = "rtw" /\ \E sh \in DOMAIN out.body.reads : \E i \in 1..Len(out.body.reads[sh]) : out.body.reads[sh][i] # <<>>)

(* ------------- C31: what the same operation gives on the StorageServer itself -------------
   DirectView(H, r, out): the result of the direct call (BucketWriter.write + close when complete,
   BucketWriter.abort, BucketReader.read, get_buckets, slot_readv, slot_testv_and_readv_and_writev,
   add_lease, advise_corrupt_share), expressed with the operators of Storage.tla on the same state.
   Legitimate differences of the HTTP protocol are written down here:
     * an upload is addressed by (si, sh) + upload secret instead of a writer reference,
     * add_lease on a storage index without shares is a 404 instead of a silent no-op,
     * a read of a missing share is a 404 instead of "no such reader",
     * an empty range cannot be expressed in Range / Content-Range. *)
DirectWrite(H, r) ==
  IF ~(InDomI(H, r.si, r.sh) /\ H.S.imm[r.si][r.sh].st = "incoming") THEN [st |-> "nowriter"]
  ELSE LET wid == H.S.imm[r.si][r.sh].wid
           wr == WriteRes(H.S, wid, r.a.off, r.a.data)
           b1 == Write(H.S, wid, r.a.off, r.a.data).imm[r.si][r.sh]
       IN IF wr # "ok" THEN [st |-> wr] ELSE [st |-> "ok", finished |-> Complete(b1)]
DirectView(H, r) ==
  CASE r.ep = "write" -> DirectWrite(H, r)
    [] r.ep = "abort" -> IF InDomI(H, r.si, r.sh) /\ H.S.imm[r.si][r.sh].st = "incoming" THEN [st |-> "ok"] ELSE [st |-> "nowriter"]
    [] r.ep = "ilist" -> [st |-> "ok", shares |-> GetBucketsRes(H.S, r.si)]
    [] r.ep = "iread" -> IF H.S.imm[r.si][r.sh].st = "final" THEN [st |-> "ok", data |-> ReadRes(H.S, r.si, r.sh, r.a.off, r.a.len)]
                         ELSE [st |-> "noshare"]
    [] r.ep = "mread" -> IF H.S.mut[r.si][r.sh].present
                           THEN [st |-> "ok", data |-> ReadvRes(H.S, r.si, {r.sh}, <<[off |-> r.a.off, len |-> r.a.len]>>)[r.sh][1]]
                           ELSE [st |-> "noshare"]
    [] r.ep = "mlist" -> [st |-> "ok", shares |-> ExistingM(H.S, r.si)]
    [] r.ep = "lease" -> [st |-> "ok"]
    [] r.ep \in {"icorrupt", "mcorrupt"} -> [st |-> "ok"]
    [] r.ep = "rtw" -> LET s == RTWStatus(H.S, r.si, Eff(r.hdrs, "we"), r.a.tw) IN
                       IF s = "badwe" THEN [st |-> "badwe"]
                       ELSE [st |-> "ok", success |-> (s = "ok"), reads |-> RTWReads(H.S, r.si, r.a.rv)]
    [] r.ep = "alloc" -> [st |-> "ok", already |-> FinalShares(H.S, r.si)]
    [] OTHER -> [st |-> "ok"]

\* what the caller of the HTTP client sees, in the vocabulary of DirectView, from the HTTP answer
ClientView(r, out) ==
  CASE r.ep = "write" -> (IF out.status \in {200, 201} THEN [st |-> "ok", finished |-> (out.status = 201)]
                          ELSE IF out.status = 409 THEN [st |-> "conflict"]
                          ELSE IF out.status = 500 THEN [st |-> "toolarge"]
                          ELSE IF out.status = 404 THEN [st |-> "nowriter"]
                          ELSE [st |-> "other"])
    [] r.ep = "abort" -> (IF out.status = 200 THEN [st |-> "ok"] ELSE IF out.status \in {404, 405} THEN [st |-> "nowriter"] ELSE [st |-> "other"])
    [] r.ep \in {"ilist", "mlist"} -> [st |-> "ok", shares |-> out.body.shares]
    [] r.ep \in {"iread", "mread"} -> (IF out.status = 206 THEN [st |-> "ok", data |-> out.body.data]
                                      ELSE IF out.status = 204 THEN [st |-> "ok", data |-> <<>>]
                                      ELSE IF out.status = 404 THEN [st |-> "noshare"] ELSE [st |-> "other"])
    [] r.ep = "lease" -> IF out.status \in {204, 404} THEN [st |-> "ok"] ELSE [st |-> "other"]
    [] r.ep \in {"icorrupt", "mcorrupt"} -> IF out.status \in {200, 404} THEN [st |-> "ok"] ELSE [st |-> "other"]
    [] r.ep = "rtw" -> (IF out.status = 401 THEN [st |-> "badwe"]
                        ELSE IF out.status = 200 THEN [st |-> "ok", success |-> out.body.success, reads |-> out.body.reads]
                        ELSE [st |-> "other"])
    [] r.ep = "alloc" -> IF out.status = 200 THEN [st |-> "ok", already |-> out.body.already] ELSE [st |-> "other"]
    [] OTHER -> [st |-> "ok"]

\* the requests for which both paths are defined and must agree: authorised, well formed, non-empty ranges,
\* and (writes/aborts) carrying the upload's own secret
Comparable(H, r) ==
  /\ Stage(H, r) = "business"
  /\ r.ep \in {"write", "abort"} => (Tracked(H, r.si, r.sh) => H.up[<<r.si, r.sh>>] = Eff(r.hdrs, "us"))
  /\ r.ep = "write" => r.a.cr = "ok" /\ Len(r.a.data) > 0
  /\ r.ep \in {"iread", "mread"} => r.a.rng = "ok" /\ r.a.len > 0
  /\ r.ep \in {"alloc", "rtw", "icorrupt", "mcorrupt"} => r.a.body = "ok"
  /\ r.ep = "iread" => InDomI(H, r.si, r.sh)
  /\ r.ep = "mread" => InDomM(H, r.si, r.sh)
=============================================================================
