--------------------------- MODULE TraceStorage ---------------------------
(* Trace validation of a real StorageServer against Storage.tla.
   A batch of recorded behaviours (harness/storage_driver.py) is read from
   IOEnv.TRACE_FILE; TLC picks the trace in Init and replays it event by event.
   Each event is one call of the real server with its answer and an observation
   of the share files of the touched storage index.  The verdict for an event
   is the name of the first clause that does not hold ("" = accepted). *)
EXTENDS Storage, Json, IOUtils, TLCExt

Traces == JsonDeserialize(IOEnv.TRACE_FILE)

VARIABLES tid, l, S, bad
tvars == <<tid, l, S, bad>>

Events == Traces[tid].events
Ev == Events[l]

InitState(c) ==
  [imm |-> [si \in ToSet(c.sisI) |-> [sh \in ToSet(c.shnums) |-> AbsentB]],
   mut |-> [si \in ToSet(c.sisM) |-> [sh \in ToSet(c.shnums) |-> AbsentM]],
   clock |-> 0, capacity |-> c.capacity0, reserved |-> c.reserved, readonly |-> c.readonly]

(* ---- projection of the Spec state to what the harness observes on disk ---- *)
ObsImm(T, si) == [sh \in DOMAIN T.imm[si] |->
                    LET b == T.imm[si][sh] IN
                    [st |-> b.st, data |-> IF b.st = "final" THEN b.data ELSE <<>>,
                     leases |-> IF b.st = "final" THEN b.leases ELSE {}]]
ObsMut(T, si) == [sh \in DOMAIN T.mut[si] |-> T.mut[si][sh]]
NormObsImm(o) == [sh \in DOMAIN o |-> [st |-> o[sh].st, data |-> o[sh].data, leases |-> ToSet(o[sh].leases)]]
NormObsMut(o) == [sh \in DOMAIN o |-> [present |-> o[sh].present, data |-> o[sh].data, we |-> o[sh].we,
                                         leases |-> ToSet(o[sh].leases)]]
ObsOK(T, si, o) == IF si \in DOMAIN T.imm THEN ObsImm(T, si) = NormObsImm(o) ELSE ObsMut(T, si) = NormObsMut(o)
\* same, but ignoring leases: used to name the clause (data/visibility vs leases)
NoLeases(f) == [sh \in DOMAIN f |-> [f[sh] EXCEPT !.leases = {}]]
ObsDataOK(T, si, o) == IF si \in DOMAIN T.imm THEN NoLeases(ObsImm(T, si)) = NoLeases(NormObsImm(o))
                                                ELSE NoLeases(ObsMut(T, si)) = NoLeases(NormObsMut(o))

\* tw as recorded: record share -> [test, writes, newlen]
V(c, s) == [c |-> c, s |-> s]

(* one verdict operator per recorded call *)
VAllocate(e) ==
  LET shn == ToSet(e.shnums)
      already == ToSet(e.res.already)
      allocated == DOMAIN e.res.allocated
      T == Allocate(S, e.si, e.rs, e.cs, e.size, e.conn, e.res.allocated)
  IN IF e.free # AvailableSpace(S) THEN V("harness_free_mismatch", S)
     ELSE IF already # FinalShares(S, e.si) THEN V("C22_Visible_alreadygot", S)
     ELSE IF ~(allocated \subseteq AllocCandidates(S, e.si, shn)) THEN V("C22_allocated_not_absent", S)
     ELSE IF ~C28_NoOvercommit(S, e.size, allocated) THEN V("C28_NoOvercommit", S)
     ELSE IF S.readonly /\ allocated # {} THEN V("C28_ReadOnlyAccepts", S)
     ELSE IF Cardinality(allocated) < AllocCount(S, e.si, shn, e.size) THEN V("C28_Release_refused_what_fits", S)
     ELSE IF ~InProgressReportOK(T, e.inprog) THEN V("C28_inprogress_report", S)
     ELSE IF ~ObsDataOK(T, e.si, e.obs) THEN V("C22_state_after_allocate", S)
     ELSE IF ~ObsOK(T, e.si, e.obs) THEN V("C25_leases_after_allocate", S)
     ELSE V("", T)

VWrite(e) ==
  LET T == Write(S, e.wid, e.off, e.data) IN
  IF e.res # WriteRes(S, e.wid, e.off, e.data) THEN V("C22_write_result", S)
  ELSE IF ~InProgressReportOK(T, e.inprog) THEN V("C28_inprogress_report", S)
  ELSE IF ~ObsDataOK(T, e.si, e.obs) THEN V("C22_state_after_write", S)
  ELSE V("", T)

VClose(e) ==
  LET T == Close(S, e.wid) IN
  IF e.res # CloseRes(S, e.wid) THEN V("C22_close_result", S)
  ELSE IF ~InProgressReportOK(T, e.inprog) THEN V("C28_Release_close", S)
  ELSE IF ~ObsDataOK(T, e.si, e.obs) THEN V("C22_state_after_close", S)
  ELSE IF ~ObsOK(T, e.si, e.obs) THEN V("C25_leases_after_close", S)
  ELSE V("", T)

VAbort(e) ==
  LET T == Abort(S, e.wid) IN
  IF ~ObsDataOK(T, e.si, e.obs) THEN V("C22_NoTrace_abort_left_share", S)
  ELSE IF ~InProgressReportOK(T, e.inprog) THEN V("C28_Release_abort", S)
  ELSE V("", T)

\* uploads that ended without a close: exactly the writers the harness saw closing
Drop(T0, wids) ==
  [T0 EXCEPT !.imm = [si \in DOMAIN T0.imm |-> [sh \in DOMAIN T0.imm[si] |->
                        LET b == T0.imm[si][sh] IN IF b.st = "incoming" /\ b.wid \in wids THEN AbsentB ELSE b]]]
OpenWids(T0) == {T0.imm[p[1]][p[2]].wid : p \in Incoming(T0)}

\* Time passes.  WHICH uploads time out is taken from the observation (the 30-minute rule is the
\* code's policy, not part of C22/C28; a deviation from Advance() is only noted); what is judged is
\* that every upload that timed out left nothing behind and released its reservation.
VAdvance(e) ==
  LET closedW == ToSet(e.closed)
      T == Drop([S EXCEPT !.clock = S.clock + e.dt], closedW)
  IN IF ~(closedW \subseteq OpenWids(S)) THEN V("harness_closed_unknown_writer", S)
     ELSE IF \E si \in DOMAIN e.obsall : ~ObsDataOK(T, si, e.obsall[si]) THEN V("C22_NoTrace_timeout_left_share", S)
     ELSE IF ~InProgressReportOK(T, e.inprog) THEN V("C22_C28_NoTrace_timeout_reservation", S)
     ELSE IF T # Advance(S, e.dt) /\ PrintT(<<"VF_NOTE", tid, l, "timeout_timing_differs_from_30min_rule">>) THEN V("", T)
     ELSE V("", T)

\* the connection is lost: every open upload allocated over it must be gone
VDisconnect(e) ==
  LET T == Disconnect(S, e.conn) IN
  IF \E si \in DOMAIN e.obsall : ~ObsDataOK(T, si, e.obsall[si]) THEN V("C22_NoTrace_disconnect_left_share", S)
  ELSE IF ~InProgressReportOK(T, e.inprog) THEN V("C22_C28_NoTrace_disconnect_reservation", S)
  ELSE V("", T)

VGetBuckets(e) ==
  IF ToSet(e.res) # GetBucketsRes(S, e.si) THEN V("C22_Visible", S)
  ELSE IF ~ObsDataOK(S, e.si, e.obs) THEN V("C22_state_at_listing", S)
  ELSE IF ~ObsOK(S, e.si, e.obs) THEN V("C25_leases_at_listing", S)
  ELSE V("", S)

VRead(e) ==
  IF e.res # ReadRes(S, e.si, e.sh, e.off, e.len) THEN V("C22_ReadBack", S)
  ELSE IF ~ObsDataOK(S, e.si, e.obs) THEN V("C22_state_at_read", S)
  ELSE IF ~ObsOK(S, e.si, e.obs) THEN V("C25_leases_at_read", S)
  ELSE V("", S)

VSetFree(e) == V("", [S EXCEPT !.capacity = e.capacity])

VAddLease(e) ==
  LET T == AddLease(S, e.si, e.rs, e.cs) IN
  IF ~ObsDataOK(T, e.si, e.obs) THEN V("C25_C29_lease_op_changed_data", S)
  ELSE IF ~ObsOK(T, e.si, e.obs) THEN V("C25_add_lease", S) ELSE V("", T)

VRenewLease(e) ==
  LET T == Renew(S, e.si, e.rs) IN
  IF e.res # RenewRes(S, e.si, e.rs) THEN V("C25_renew_result", S)
  ELSE IF e.res = "ok" THEN (IF ObsOK(T, e.si, e.obs) THEN V("", T) ELSE V("C25_renew_state", S))
  ELSE IF RenewUnknown(S, e.si, e.rs) THEN (IF ObsOK(S, e.si, e.obs) THEN V("", S) ELSE V("C25_UnknownRenew_changed_state", S))
  ELSE \* partial renewal (secret known to some shares only): each share is either untouched or renewed
       LET o == e.obs
           okshare(sh) == LET want0 == IF IsMutableSI(S, e.si) THEN ObsMut(S, e.si)[sh] ELSE ObsImm(S, e.si)[sh]
                              want1 == IF IsMutableSI(S, e.si) THEN ObsMut(T, e.si)[sh] ELSE ObsImm(T, e.si)[sh]
                              got == IF IsMutableSI(S, e.si) THEN NormObsMut(o)[sh] ELSE NormObsImm(o)[sh]
                          IN got = want0 \/ got = want1
           pick(sh) == IF IsMutableSI(S, e.si)
                         THEN (IF NormObsMut(o)[sh] = ObsMut(T, e.si)[sh] THEN T.mut[e.si][sh] ELSE S.mut[e.si][sh])
                         ELSE (IF NormObsImm(o)[sh] = ObsImm(T, e.si)[sh] THEN T.imm[e.si][sh] ELSE S.imm[e.si][sh])
       IN IF \A sh \in DOMAIN o : okshare(sh)
            THEN V("", IF IsMutableSI(S, e.si) THEN [S EXCEPT !.mut[e.si] = [sh \in DOMAIN S.mut[e.si] |-> pick(sh)]]
                                               ELSE [S EXCEPT !.imm[e.si] = [sh \in DOMAIN S.imm[e.si] |-> pick(sh)]])
            ELSE V("C25_renew_partial_state", S)

NormTW(tw) == [sh \in DOMAIN tw |-> tw[sh]]
NormReads(r) == [sh \in DOMAIN r |-> r[sh]]

VRTW(e) ==
  LET tw == NormTW(e.tw)
      st == RTWStatus(S, e.si, e.we, tw)
      T == RTW(S, e.si, e.we, e.rs, e.cs, tw, e.renew)
  IN IF e.res.status # st THEN
          (IF st = "badwe" \/ e.res.status = "badwe" THEN V("C24_write_enabler", S) ELSE V("C24_test_vector_verdict", S))
     ELSE IF st # "badwe" /\ NormReads(e.res.reads) # RTWReads(S, e.si, e.rv) THEN V("C24_reads_reflect_prestate", S)
     ELSE IF st # "ok" /\ ~ObsOK(S, e.si, e.obs) THEN V("C24_none_applied", S)
     ELSE IF st = "ok" /\ ~ObsOK(T, e.si, e.obs) THEN
          \* name the clause: data, leases or presence
          (IF \E sh \in DOMAIN e.obs : e.obs[sh].present # T.mut[e.si][sh].present THEN V("C23_share_presence", S)
           ELSE IF \E sh \in DOMAIN e.obs : e.obs[sh].data # T.mut[e.si][sh].data THEN V("C23_byte_array", S)
           ELSE IF \E sh \in DOMAIN e.obs : ToSet(e.obs[sh].leases) # T.mut[e.si][sh].leases THEN V("C23_C25_leases_after_write", S)
           ELSE IF \E sh \in DOMAIN e.obs : e.obs[sh].we # T.mut[e.si][sh].we THEN V("C24_enabler_of_new_share", S)
           ELSE V("C24_all_applied", S))
     ELSE V("", T)

VReadv(e) ==
  IF NormReads(e.res) # ReadvRes(S, e.si, ToSet(e.shares), e.rv) THEN V("C23_readv", S)
  ELSE IF ~ObsDataOK(S, e.si, e.obs) THEN V("C23_state_at_read", S)
  ELSE IF ~ObsOK(S, e.si, e.obs) THEN V("C25_leases_at_read", S)
  ELSE V("", S)

VCraft(e) == V("", [S EXCEPT !.mut[e.si][e.sh].we = e.we])

Verdict(e) ==
  CASE e.ev = "Allocate"   -> VAllocate(e)
    [] e.ev = "Write"      -> VWrite(e)
    [] e.ev = "Close"      -> VClose(e)
    [] e.ev = "Abort"      -> VAbort(e)
    [] e.ev = "Advance"    -> VAdvance(e)
    [] e.ev = "Disconnect" -> VDisconnect(e)
    [] e.ev = "GetBuckets" -> VGetBuckets(e)
    [] e.ev = "Read"       -> VRead(e)
    [] e.ev = "SetFree"    -> VSetFree(e)
    [] e.ev = "AddLease"   -> VAddLease(e)
    [] e.ev = "RenewLease" -> VRenewLease(e)
    [] e.ev = "RTW"        -> VRTW(e)
    [] e.ev = "Readv"      -> VReadv(e)
    [] e.ev = "CraftEnabler" -> VCraft(e)
    [] e.ev = "Crash"      -> V(e.family \o "_unexpected_exception_" \o e.exc, S)
    [] OTHER               -> V("unknown_event", S)

\* C25 on every step of a real execution: no lease is lost and no expiry moves backwards, unless
\* the share itself goes away
StepLeasesOK(T1, T2) ==
  /\ \A si \in DOMAIN T1.imm : \A sh \in DOMAIN T1.imm[si] :
        (T1.imm[si][sh].st = "final" /\ T2.imm[si][sh].st = "final") => LeasesMonotone(T1.imm[si][sh].leases, T2.imm[si][sh].leases)
  /\ \A si \in DOMAIN T1.mut : \A sh \in DOMAIN T1.mut[si] :
        (T1.mut[si][sh].present /\ T2.mut[si][sh].present) => LeasesMonotone(T1.mut[si][sh].leases, T2.mut[si][sh].leases)

TraceInit ==
  /\ tid \in 1..Len(Traces)
  /\ l = 1
  /\ S = InitState(Traces[tid].consts)
  /\ bad = "none"

TraceNext ==
  /\ bad = "none"
  /\ l <= Len(Events)
  /\ LET v == Verdict(Ev)
         c == IF v.c # "" THEN v.c
              ELSE IF "clear" \in DOMAIN Ev /\ Ev.clear THEN "C25_NoCleartext"
              ELSE IF ~StateOK(v.s) THEN "StateOK"
              ELSE IF ~StepLeasesOK(S, v.s) THEN "C25_NoBackdate_NoLoss"
              ELSE ""
     IN IF c = ""
          THEN /\ S' = v.s /\ l' = l + 1 /\ bad' = "none"
               /\ (l = Len(Events) => PrintT(<<"VF_ACCEPT", tid, l>>))
          ELSE /\ bad' = c /\ UNCHANGED <<S, l>>
               /\ PrintT(<<"VF_REJECT", tid, l, c>>)
  /\ UNCHANGED tid

TraceSpec == TraceInit /\ [][TraceNext]_tvars
TraceOK == bad = "none"
=============================================================================
