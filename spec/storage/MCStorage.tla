----------------------------- MODULE MCStorage -----------------------------
(* Model checking of the storage server design (Storage.tla): every
   interleaving of the server's entry points over small constants.  The
   properties are stated independently of the operators, over ghost variables
   that record what clients were told. *)
EXTENDS Storage

CONSTANTS SIsI, SIsM, Shares, Sizes, Bytes, RSecrets, Conns, Enablers, FreeValues, MaxWriters, MaxOps, Profile

VARIABLES S,        \* the server
          nw,       \* writer ids handed out
          nops,     \* bound on behaviour length
          acked,    \* ghost: <<si, sh>> -> function position -> byte of every write answered "ok"
          closedOK, \* ghost: buckets whose close was answered "ok"
          last      \* ghost: the last call and its answer
vars == <<S, nw, nops, acked, closedOK, last>>

Wid(n) == "w" \o ToString(n)
AllB == {<<si, sh>> : si \in SIsI, sh \in Shares}
DataSeqs(n) == UNION {[1..k -> Bytes] : k \in 0..n}

Init ==
  /\ S = [imm |-> [si \in SIsI |-> [sh \in Shares |-> AbsentB]],
          mut |-> [si \in SIsM |-> [sh \in Shares |-> AbsentM]],
          clock |-> 0, capacity |-> SetMax(FreeValues), reserved |-> 0, readonly |-> FALSE]
  /\ nw = 0 /\ nops = 0
  /\ acked = [b \in AllB |-> <<>>]
  /\ closedOK = {}
  /\ last = [op |-> "init", res |-> "", touched |-> {}, free |-> 0, size |-> 0]

Step(op, res, touched, T) ==
  /\ nops < MaxOps
  /\ nops' = nops + 1
  /\ S' = T
  /\ last' = [op |-> op, res |-> res, touched |-> touched, free |-> AvailableSpace(S), size |-> 0]

DoAllocate ==
  \E si \in SIsI, rs \in RSecrets, shn \in SUBSET Shares, size \in Sizes, conn \in Conns :
  \E allocated \in SUBSET AllocCandidates(S, si, shn) :
    /\ AllocResOK(S, si, shn, size, FinalShares(S, si), allocated)
    /\ nw + Cardinality(allocated) <= MaxWriters
    /\ LET order == CHOOSE f \in [allocated -> 1..Cardinality(allocated)] : \A a, b \in allocated : a # b => f[a] # f[b]
           wids == [sh \in allocated |-> Wid(nw + order[sh])]
       IN /\ Step("Allocate", "", {<<si, sh>> : sh \in allocated}, Allocate(S, si, rs, "c0", size, conn, wids))
          /\ nw' = nw + Cardinality(allocated)
          /\ acked' = [b \in AllB |-> IF b[1] = si /\ b[2] \in allocated THEN <<>> ELSE acked[b]]
          /\ UNCHANGED closedOK

DoWrite ==
  \E n \in 1..nw, off \in 0..SetMax(Sizes), data \in DataSeqs(2) :
    LET wid == Wid(n)
        res == WriteRes(S, wid, off, data)
    IN /\ Step("Write", res, WriterAt(S, wid), Write(S, wid, off, data))
       /\ acked' = IF res = "ok"
                     THEN LET p == CHOOSE q \in WriterAt(S, wid) : TRUE IN
                          [acked EXCEPT ![p] = [i \in (DOMAIN acked[p]) \cup Span(off + 1, Len(data)) |->
                                                   IF i \in Span(off + 1, Len(data)) THEN data[i - off] ELSE acked[p][i]]]
                     ELSE acked
       /\ UNCHANGED <<nw, closedOK>>

DoClose ==
  \E n \in 1..nw :
    LET wid == Wid(n) IN
    /\ Step("Close", CloseRes(S, wid), WriterAt(S, wid), Close(S, wid))
    /\ closedOK' = closedOK \cup WriterAt(S, wid)
    /\ UNCHANGED <<nw, acked>>

DoAbort ==
  \E n \in 1..nw :
    /\ Step("Abort", "", WriterAt(S, Wid(n)), Abort(S, Wid(n)))
    /\ closedOK' = closedOK \ WriterAt(S, Wid(n))
    /\ UNCHANGED <<nw, acked>>

DoAdvance ==
  \E dt \in {600, 1300} :
    LET T == Advance(S, dt) IN
    /\ S.clock < 4000
    /\ Step("Timeout", "", {p \in Incoming(S) : T.imm[p[1]][p[2]].st = "absent"}, T)
    /\ UNCHANGED <<nw, acked, closedOK>>

DoDisconnect ==
  \E c \in Conns :
    /\ Step("Disconnect", "", {p \in Incoming(S) : S.imm[p[1]][p[2]].conn = c}, Disconnect(S, c))
    /\ UNCHANGED <<nw, acked, closedOK>>

DoSetFree ==
  \E f \in FreeValues : /\ f # S.capacity
                        /\ Step("SetFree", "", {}, [S EXCEPT !.capacity = f])
                        /\ UNCHANGED <<nw, acked, closedOK>>

DoLease ==
  \E si \in SIsI \cup SIsM, rs \in RSecrets :
    \/ Step("AddLease", "", {}, AddLease(S, si, rs, "c0")) /\ UNCHANGED <<nw, acked, closedOK>>
    \/ /\ (RenewRes(S, si, rs) = "ok" \/ RenewUnknown(S, si, rs))
       /\ Step("Renew", RenewRes(S, si, rs), {}, IF RenewRes(S, si, rs) = "ok" THEN Renew(S, si, rs) ELSE S)
       /\ UNCHANGED <<nw, acked, closedOK>>

TWs == [test : {<<>>, <<[off |-> 0, len |-> 1, spec |-> <<0>>]>>, <<[off |-> 0, len |-> 2, spec |-> <<>>]>>},
        writes : {<<>>, <<[off |-> 0, data |-> <<1>>]>>, <<[off |-> 2, data |-> <<0, 1>>]>>, <<[off |-> 1, data |-> <<>>]>>},
        newlen : {-1, 0, 1}]
DoRTW ==
  \E si \in SIsM, we \in Enablers, rs \in RSecrets, shs \in SUBSET Shares, renew \in BOOLEAN :
  \E tw \in [shs -> TWs] :
    /\ Step("RTW", RTWStatus(S, si, we, tw), {}, RTW(S, si, we, rs, "c0", tw, renew))
    /\ UNCHANGED <<nw, acked, closedOK>>

Next ==
  \/ (Profile = "imm" /\ (DoAllocate \/ DoWrite \/ DoClose \/ DoAbort \/ DoAdvance \/ DoDisconnect \/ DoSetFree \/ DoLease))
  \/ (Profile = "mut" /\ (DoRTW \/ DoLease \/ DoAdvance))

Spec == Init /\ [][Next]_vars

(* ------------------------------ properties ------------------------------ *)
Inv_StateOK == StateOK(S)

\* C22: a share readers can list was closed successfully, and is not an upload in progress
C22_Visible == \A si \in SIsI : \A sh \in GetBucketsRes(S, si) : <<si, sh>> \in closedOK /\ S.imm[si][sh].st = "final"
\* C22: a visible share returns every byte whose write was acknowledged; reads stop at the allocated size
C22_ReadBack ==
  \A si \in SIsI : \A sh \in GetBucketsRes(S, si) :
    /\ \A i \in DOMAIN acked[<<si, sh>>] : ReadRes(S, si, sh, i - 1, 1) = <<acked[<<si, sh>>][i]>>
    /\ Len(ReadRes(S, si, sh, 0, 100)) = S.imm[si][sh].size
\* C22: a rejected write changes no stored data
Strip(T) == [si \in DOMAIN T.imm |-> [sh \in DOMAIN T.imm[si] |-> [T.imm[si][sh] EXCEPT !.deadline = 0]]]
C22_RejectedWriteNoChange ==
  [][(last'.op = "Write" /\ last'.res # "ok") => Strip(S') = Strip(S)]_vars
\* C22: abort / timeout / disconnect leave no share behind and release the reservation
C22_NoTrace ==
  [][(last'.op \in {"Abort", "Timeout", "Disconnect"}) =>
        /\ \A p \in last'.touched : S'.imm[p[1]][p[2]] = AbsentB
        /\ InProgress(S') = InProgress(S) - SumSizes(S, last'.touched)]_vars
\* C28: at every acceptance the uploads in progress (including the new ones) fit in the available space
C28_NoOvercommit_Inv ==
  [][(last'.op = "Allocate" /\ last'.touched # {}) => Need(S') <= last'.free]_vars
C28_Release ==
  [][(last'.op = "Close" /\ last'.res = "ok") => InProgress(S') = InProgress(S) - SumSizes(S, last'.touched)]_vars
\* C25: leases never disappear from a surviving share and never move backwards; no duplicates (in StateOK)
C25_NoBackdate ==
  [][/\ \A si \in SIsI : \A sh \in Shares : (S.imm[si][sh].st = "final" /\ S'.imm[si][sh].st = "final")
                                              => LeasesMonotone(S.imm[si][sh].leases, S'.imm[si][sh].leases)
     /\ \A si \in SIsM : \A sh \in Shares : (S.mut[si][sh].present /\ S'.mut[si][sh].present)
                                              => LeasesMonotone(S.mut[si][sh].leases, S'.mut[si][sh].leases)]_vars
C25_UnknownRenew ==
  [][(last'.op = "Renew" /\ last'.res = "error") => S' = S]_vars
\* C24: a request that fails its tests or its enabler changes nothing
C24_Atomic ==
  [][(last'.op = "RTW" /\ last'.res # "ok") => S' = S]_vars
\* C23: share data never contains anything but bytes; deleting needs newlen = 0
C23_Bytes == \A si \in SIsM : \A sh \in Shares : \A i \in 1..Len(S.mut[si][sh].data) : S.mut[si][sh].data[i] \in Bytes \cup {0}
=============================================================================
