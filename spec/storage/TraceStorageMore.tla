------------------------- MODULE TraceStorageMore --------------------------
(* Trace validation of a real StorageServer against Storage.tla + StorageMore.tla:
   the recorded histories of harness/storage_more_driver.py mix the calls
   TraceStorage.tla already judges (allocate, write, close, abort, time, space,
   leases, mutable writes) with corruption advisories (through the server and
   through a BucketReader) and get_version.  Old events are judged by
   TraceStorage!Verdict, the new ones here; the advisory directory is the extra
   state component `adv`.

   consts.soft lists clauses whose violation is a listed known finding (the check
   fills it from known_findings.d): such a deviation is printed as a VF_NOTE
   "K:<clause>:<event>:<tid>:<l>" (the check turns every note into a reported
   known finding), the code's answer is taken over and the rest of the history is
   still validated.  With an empty list every deviation rejects the trace. *)
EXTENDS TraceStorage, StorageMore

VARIABLE adv
mtvars == <<tid, l, S, bad, adv>>

Soft(c) == c \in ToSet(Traces[tid].consts.soft)
Known(c, evname) == Soft(c) /\ PrintT(<<"VF_NOTE", tid, l, "K:" \o c \o ":" \o evname \o ":" \o ToString(tid) \o ":" \o ToString(l)>>)

W(c, s, a) == [c |-> c, s |-> s, a |-> a]

NormReports(rs) == {Report(r.type, r.si, r.sh, r.reason) : r \in ToSet(rs)}

VAdvise(e) ==
  LET held == HoldsShare(S, e.si, e.sh)
      fits == e.replen <= AvailableSpace(S)
      T == Advise(S, e.si, e.sh, e.replen)
      typ == IF e.via = "reader" THEN ReaderAdviseType ELSE e.type     \* a BucketReader knows what it is reading
      A == AdviseAdv(adv, S, typ, e.si, e.sh, e.reason, e.replen)
      got == NormReports(e.reports)
  IN IF e.free # AvailableSpace(S) THEN W("harness_free_mismatch", S, adv)
     ELSE IF e.res # AdviseRes(S, e.si, e.sh, e.replen) THEN W("ADV_answer_not_none", S, adv)
     ELSE IF ~(adv \subseteq got) THEN W("ADV_report_lost", S, adv)
     ELSE IF ~held /\ got # adv THEN W("ADV_recorded_for_share_not_held", S, adv)
     ELSE IF held /\ ~fits /\ got # adv THEN W("ADV_recorded_beyond_available_space", S, adv)
     ELSE IF held /\ fits /\ got = adv /\ Report(typ, e.si, e.sh, e.reason) \notin adv THEN W("ADV_not_recorded", S, adv)
     ELSE IF got # A THEN W("ADV_report_content", S, adv)
     ELSE IF held /\ fits /\ e.written # e.replen THEN W("harness_report_size_differs_from_twin", S, adv)
     ELSE IF \E si \in DOMAIN e.obsall : ~ObsOK(T, si, e.obsall[si]) THEN W("ADV_changed_share_state", S, adv)
     ELSE IF ~InProgressReportOK(T, e.inprog) THEN W("ADV_changed_uploads_in_progress", S, adv)
     ELSE W("", T, A)

VVersion(e) ==
  LET r == e.res
      busy == r.avail = AvailableSpace(S) /\ Full(S) > 0
      cK == "VER_avail_ignores_uploads"
  IN IF e.free # AvailableSpace(S) THEN W("harness_free_mismatch", S, adv)
     ELSE IF S.readonly /\ (r.avail # 0 \/ r.maximm # 0) THEN W("VER_readonly_advertises_space", S, adv)
     ELSE IF ~VersionAvailOK(S, r.avail) /\ ~(busy /\ Known(cK, "Version")) THEN
            (IF busy THEN W(cK, S, adv) ELSE W("VER_available_space", S, adv))
     ELSE IF r.maximm # r.avail /\ ~VersionAvailOK(S, r.maximm) THEN W("VER_maximum_immutable_share_size", S, adv)
     ELSE IF r.maxmut # VersionRes(S).maxmut THEN W("VER_maximum_mutable_share_size", S, adv)
     ELSE IF [k \in DOMAIN VersionFlags |-> r.flags[k]] # VersionFlags THEN W("VER_capability_flags", S, adv)
     ELSE IF r.appver # VersionRes(S).appver THEN W("VER_application_version_missing", S, adv)
     ELSE IF \E si \in DOMAIN e.obsall : ~ObsOK(S, si, e.obsall[si]) THEN W("VER_changed_share_state", S, adv)
     ELSE W("", S, adv)

\* stopService + a new StorageServer on the same directory with another readonly_storage setting
VReconfigure(e) ==
  LET T == Reconfigure(S, e.readonly) IN
  IF \E si \in DOMAIN e.obsall : ~ObsDataOK(T, si, e.obsall[si]) THEN W("CFG_restart_changed_shares", S, adv)
  ELSE IF \E si \in DOMAIN e.obsall : ~ObsOK(T, si, e.obsall[si]) THEN W("CFG_restart_changed_leases", S, adv)
  ELSE IF ~InProgressReportOK(T, e.inprog) THEN W("CFG_restart_kept_reservations", S, adv)
  ELSE IF NormReports(e.reports) # adv THEN W("CFG_restart_changed_advisories", S, adv)
  ELSE W("", T, adv)

VerdictM(e) ==
  CASE e.ev = "Advise"  -> VAdvise(e)
    [] e.ev = "Version" -> VVersion(e)
    [] e.ev = "Reconfigure" -> VReconfigure(e)
    [] e.ev = "Crash"   -> W("MORE_unexpected_exception_" \o e.exc, S, adv)
    [] OTHER            -> LET v == Verdict(e) IN W(v.c, v.s, adv)

MTraceInit ==
  /\ TraceInit
  /\ adv = {}

MTraceNext ==
  /\ bad = "none"
  /\ l <= Len(Events)
  /\ \E v \in {VerdictM(Ev)} :    \* bound once (a LET would be re-evaluated at every use)
     LET c == IF v.c # "" THEN v.c
              ELSE IF ~StateOK(v.s) THEN "StateOK"
              ELSE IF ~StepLeasesOK(S, v.s) THEN "C25_NoBackdate_NoLoss"
              ELSE ""
     IN IF c = ""
          THEN /\ S' = v.s /\ adv' = v.a /\ l' = l + 1 /\ bad' = "none"
               /\ (l = Len(Events) => PrintT(<<"VF_ACCEPT", tid, l>>))
          ELSE /\ bad' = c /\ UNCHANGED <<S, l, adv>>
               /\ PrintT(<<"VF_REJECT", tid, l, c>>)
  /\ UNCHANGED tid

MTraceSpec == MTraceInit /\ [][MTraceNext]_mtvars
=============================================================================
