------------------------ MODULE TraceShareFileDisk ------------------------
(* Crash points of real storage operations judged against ShareFileDisk.tla.
   One trace = one operation of harness/crash_driver.py cut after `crash_at`
   recorded steps: consts.fs0 are the share files before the operation, consts.steps
   the steps that reached the disk, events[1].obs what the real code read back
   after a restart on the real directory.  TLC computes the crashed disk from the
   steps, restarts and recovers it with the Spec's operators, and decides
     C29_RecoverAgrees  the Spec's recovery equals what the real code reads
     C29_Discard, C29_Others, C29_LeaseOnly, C29_AllOrNothing, and for the lease checker's cancel_lease
     (consts.cancel = the lease records to remove) C29_CancelKeepsOthers. *)
EXTENDS ShareFileDisk, Json, IOUtils, TLCExt

Traces == JsonDeserialize(IOEnv.TRACE_FILE)

VARIABLES tid, l, bad
tvars == <<tid, l, bad>>

C == Traces[tid].consts
Obs == Traces[tid].events[1].obs

NormObs(o) == [present |-> o.present, dok |-> o.dok, data |-> o.data, lok |-> o.lok, leases |-> o.leases]

Verdict ==
  LET paths   == C.paths
      before  == C.fs0
      crashed == Crash(before, C.steps)
      after   == Restart(crashed, paths)
      targets == ToSet(C.targets)
  IN IF \E p \in DOMAIN Obs : paths[p].area = "incoming" /\ Obs[p].present THEN "C29_Discard_real"
     ELSE IF \E p \in DOMAIN Obs : NormObs(Obs[p]) # View(after, paths, p) THEN "C29_RecoverAgrees"
     ELSE IF ~C29_Discard(after, paths) THEN "C29_Discard"
     ELSE IF ~C29_Others(before, after, paths, targets, ToSet(C.lease_targets)) THEN "C29_Others"
     ELSE IF C.lease_only /\ ~C29_LeaseOnly(before, after, paths) THEN "C29_LeaseOnly"
     ELSE IF ~C29_AllOrNothing(before, after, paths, C.expect) THEN "C29_AllOrNothing"
     ELSE IF "cancel" \in DOMAIN C /\ ~C29_CancelKeepsOthers(before, after, paths, targets, ToSet(C.cancel)) THEN "C29_CancelKeepsOthers"
     ELSE ""

TraceInit == tid \in 1..Len(Traces) /\ l = 1 /\ bad = "none"

TraceNext ==
  /\ bad = "none" /\ l = 1
  /\ LET v == Verdict IN
       IF v = "" THEN /\ l' = 2 /\ bad' = "none" /\ PrintT(<<"VF_ACCEPT", tid, 1>>)
                 ELSE /\ l' = l /\ bad' = v /\ PrintT(<<"VF_REJECT", tid, 1, v>>)
  /\ UNCHANGED tid

TraceSpec == TraceInit /\ [][TraceNext]_tvars
TraceOK == bad = "none"
=============================================================================
