--------------------------- MODULE ShareFileDisk ---------------------------
(* Share containers on disk and what survives a crash of the storage server.

   A file is a byte array.  A storage operation is the sequence of low-level,
   state-changing file system steps it performs (as recorded from the real
   code, one step per write(2) / truncate / rename / unlink / create):
       [k |-> "create", p]            the file p exists and is empty
       [k |-> "write", p, off, data]  data at offset off (zero fill of a gap)
       [k |-> "truncate", p, n]       length becomes n
       [k |-> "rename", p, q]         p becomes q
       [k |-> "unlink", p]            p is gone
       mkdir / rmdir                  no effect on files
   Crash(fs, steps, i) is the disk after the first i steps.  Restart removes
   everything under incoming/ (StorageServer._clean_incomplete) and Recover is
   how the code re-reads a container:
     immutable (storage/immutable.py ShareFile.__init__, read_share_data, get_leases):
        version at 0, lease count n at 0x8, lease offset = filesize - 72 n,
        data = bytes [0xc, lease offset), leases = n records of 72 bytes from the lease offset
     mutable (storage/mutable.py): data length at 84 (8 bytes), extra-lease offset at 92
        (8 bytes), four lease slots of 92 bytes at 100, data at 468, at the extra-lease
        offset a 4-byte count followed by that many slots; a slot with owner 0 is empty.
   A view is [present, dok, data, lok, leases]: dok / lok say whether the code can read the
   data / the leases at all (short reads make struct.unpack fail). *)
EXTENDS Common

\* FALSE: the code under test (data length derived from the file size); TRUE: the reading proposed
\* in mutants/C29_proposed_fix.diff (the share-data-length field of the header is trusted when it is
\* not saturated and consistent with the file size)
CONSTANT ImmByHeader

Big == 1073741824
RECURSIVE UDec(_, _)
\* big-endian unsigned decode, saturating at Big (TLC integers are 32 bit)
UDec(bs, acc) == IF bs = <<>> THEN acc
                 ELSE IF acc >= 4194304 THEN Big
                 ELSE UDec(Tail(bs), acc * 256 + Head(bs))
U(f, off, len) == UDec(ReadAt(f, off, len), 0)

(* ---- file system steps ---------------------------------------------------- *)
Remove(fs, p) == [q \in (DOMAIN fs) \ {p} |-> fs[q]]
Put(fs, p, v) == [q \in (DOMAIN fs) \cup {p} |-> IF q = p THEN v ELSE fs[q]]

Apply(fs, st) ==
  CASE st.k = "create"   -> Put(fs, st.p, <<>>)
    [] st.k = "write"    -> IF st.p \in DOMAIN fs THEN Put(fs, st.p, WriteAt(fs[st.p], st.off, st.data)) ELSE fs
    [] st.k = "truncate" -> IF st.p \in DOMAIN fs
                              THEN Put(fs, st.p, IF st.n <= Len(fs[st.p]) THEN SubSeq(fs[st.p], 1, st.n)
                                                 ELSE fs[st.p] \o Zeros(st.n - Len(fs[st.p])))
                              ELSE fs
    [] st.k = "rename"   -> IF st.p \in DOMAIN fs THEN Put(Remove(fs, st.p), st.q, fs[st.p]) ELSE fs
    [] st.k = "unlink"   -> Remove(fs, st.p)
    [] OTHER             -> fs

RECURSIVE ApplyAll(_, _, _)
ApplyAll(fs, steps, i) == IF i > Len(steps) THEN fs ELSE ApplyAll(Apply(fs, steps[i]), steps, i + 1)
\* the disk after a crash that let exactly the given steps through
Crash(fs, steps) == ApplyAll(fs, steps, 1)

\* a new StorageServer on the same directory
Restart(fs, paths) == [p \in {q \in DOMAIN fs : q \in DOMAIN paths /\ paths[q].area = "final"} |-> fs[p]]

(* ---- how the code reads a container back ---------------------------------- *)
Absent == [present |-> FALSE, dok |-> FALSE, data |-> <<>>, lok |-> FALSE, leases |-> <<>>]
Unreadable == [present |-> TRUE, dok |-> FALSE, data |-> <<>>, lok |-> FALSE, leases |-> <<>>]

ImmLeaseSize == 72
RecoverImm(f) ==
  IF Len(f) < 12 THEN Unreadable
  ELSE LET ver == U(f, 0, 4)
           n   == U(f, 8, 4)
           hdr == U(f, 4, 4)
           lo  == IF ImmByHeader /\ hdr < Big /\ n < Big /\ 12 + hdr + ImmLeaseSize * n <= Len(f)
                    THEN 12 + hdr
                    ELSE Len(f) - ImmLeaseSize * n
       IN IF ver \notin {1, 2} THEN Unreadable
          ELSE LET data == IF lo > 12 THEN ReadAt(f, 12, lo - 12) ELSE <<>>
                   recs == IF lo < 0 THEN <<>> ELSE [i \in 1..n |-> ReadAt(f, lo + ImmLeaseSize * (i - 1), ImmLeaseSize)]
                   lok  == lo >= 0 /\ \A i \in 1..Len(recs) : Len(recs[i]) \in {0, ImmLeaseSize}
               IN [present |-> TRUE, dok |-> TRUE, data |-> data, lok |-> lok,
                   leases |-> IF lok THEN SelectSeq(recs, LAMBDA r : Len(r) = ImmLeaseSize) ELSE <<>>]

MutHeader == 100
MutLeaseSize == 92
MutDataOffset == 468
RecoverMut(f) ==
  IF Len(f) < MutHeader THEN Unreadable
  ELSE LET dl   == U(f, 84, 8)
           elo  == U(f, 92, 8)
           data == ReadAt(f, MutDataOffset, dl)
           cntb == ReadAt(f, elo, 4)
           nx   == UDec(cntb, 0)
           slotoff(i) == IF i < 4 THEN MutHeader + MutLeaseSize * i ELSE elo + 4 + MutLeaseSize * (i - 4)
           cok  == Len(cntb) = 4 /\ nx < 1000
           recs == IF cok THEN [i \in 1..(4 + nx) |-> ReadAt(f, slotoff(i - 1), MutLeaseSize)] ELSE <<>>
           lok  == cok /\ \A i \in 1..Len(recs) : Len(recs[i]) = MutLeaseSize
       IN [present |-> TRUE, dok |-> TRUE, data |-> data, lok |-> lok,
           leases |-> IF lok THEN SelectSeq(recs, LAMBDA r : UDec(SubSeq(r, 1, 4), 0) # 0) ELSE <<>>]

View(fs, paths, p) ==
  IF p \notin DOMAIN fs THEN Absent
  ELSE IF paths[p].kind = "imm" THEN RecoverImm(fs[p]) ELSE RecoverMut(fs[p])

(* ---- C29 ------------------------------------------------------------------- *)
\* before: the disk before the operation; after: the disk after crash + restart
Finals(paths) == {p \in DOMAIN paths : paths[p].area = "final"}

\* every share the operation does not write keeps its data and leases; a share that the operation
\* only puts a lease on (leaseTargets: existing shares of a bucket at allocate_buckets) keeps its data
SameData(a, b) == a.present = b.present /\ a.dok = b.dok /\ a.data = b.data
C29_Others(before, after, paths, targets, leaseTargets) ==
  /\ \A p \in Finals(paths) \ (targets \cup leaseTargets) : View(after, paths, p) = View(before, paths, p)
  /\ \A p \in leaseTargets \ targets : SameData(View(after, paths, p), View(before, paths, p))

\* an operation that only adds or renews leases never changes any share's data
C29_LeaseOnly(before, after, paths) ==
  \A p \in Finals(paths) :
    LET a == View(after, paths, p)
        b == View(before, paths, p)
    IN a.present = b.present /\ a.dok = b.dok /\ a.data = b.data

\* an immutable share is absent or complete (complete(p) = the data the uploader sent, or what was there)
C29_AllOrNothing(before, after, paths, complete) ==
  \A p \in Finals(paths) :
    paths[p].kind = "imm" =>
      LET a == View(after, paths, p) IN
      ~a.present \/ (a.dok /\ a.data = (IF p \in DOMAIN complete THEN complete[p] ELSE View(before, paths, p).data))

\* the lease checker cancels leases (cancel_lease): the share keeps its data and every lease that is not being
\* cancelled, wherever the process dies; it may disappear only when no other lease was on it
SeqSet(q) == {q[i] : i \in 1..Len(q)}
C29_CancelKeepsOthers(before, after, paths, targets, cancelled) ==
  \A p \in targets :
    LET a == View(after, paths, p)
        b == View(before, paths, p)
        keep == SeqSet(b.leases) \ cancelled
    IN IF a.present THEN a.dok /\ a.data = b.data /\ a.lok /\ keep \subseteq SeqSet(a.leases)
       ELSE keep = {}

\* uploads in progress are gone after the restart
C29_Discard(after, paths) == \A p \in DOMAIN after : paths[p].area = "final"
=============================================================================
