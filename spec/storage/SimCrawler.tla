----------------------------- MODULE SimCrawler -----------------------------
(* Behaviour generator for the conformance step of C27: TLC (-simulate, or
   exhaustively for tiny bounds) walks Crawler.tla and writes every behaviour,
   i.e. the sequence of actions with the Spec's state after each action, as one
   JSON file into IOEnv.OUT_DIR.  harness/crawler_driver.py forces the real
   ShareCrawler through the same schedule and compares after every step. *)
EXTENDS Crawler, Json, IOUtils, Randomization

CONSTANTS Universe, MaxBuckets, MaxSteps, MaxKills, MaxChanges

VARIABLES hist, kills, changes, emitted
svars == <<disk, saved, V, pc, ev, hist, kills, changes, emitted>>

Snap == [ev |-> ev', saved |-> saved', pc |-> pc', disk |-> disk',
         V |-> [lcf |-> V'.lcf, cur |-> V'.cur, lcpi |-> V'.lcpi, lcb |-> V'.lcb]]

SInit ==
  /\ \E d \in SUBSET Universe : Cardinality(d) <= MaxBuckets /\ CInit(d)
  /\ hist = <<[ev |-> ev, saved |-> saved, pc |-> pc, disk |-> disk,
               V |-> [lcf |-> V.lcf, cur |-> V.cur, lcpi |-> V.lcpi, lcb |-> V.lcb]]>>
  /\ kills = 0 /\ changes = 0 /\ emitted = FALSE

Step ==
  /\ Len(hist) <= MaxSteps
  /\ \/ CrawlNext
     \/ (kills < MaxKills /\ AKill)
     \/ ARestart
     \/ (changes < MaxChanges /\ (V.cur # NoCycle \/ saved.cur # NoCycle \/ saved.lcf # NoCycle) /\ \E b \in Universe : AAddBucket(b) \/ ARemoveBucket(b))
  /\ hist' = Append(hist, Snap)
  /\ kills' = IF ev'.a = "Kill" THEN kills + 1 ELSE kills
  /\ changes' = IF ev'.a \in {"AddBucket", "RemoveBucket"} THEN changes + 1 ELSE changes
  /\ UNCHANGED emitted

Emit ==
  /\ Len(hist) = MaxSteps + 1 /\ ~emitted
  /\ JsonSerialize(IOEnv.OUT_DIR \o "/b" \o ToString(RandomElement(1..2000000000)) \o ".json",
                   [disk0 |-> hist[1].disk,
                    steps |-> Tail(hist)])
  /\ emitted' = TRUE
  /\ UNCHANGED <<disk, saved, V, pc, ev, hist, kills, changes>>

SNext == Step \/ Emit
SSpec == SInit /\ [][SNext]_svars
=============================================================================
