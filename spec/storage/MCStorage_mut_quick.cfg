SPECIFICATION Spec
CONSTANTS
  SIsI = {"i0"}
  SIsM = {"m0"}
  Shares = {"0", "1"}
  Sizes = {2}
  Bytes = {0, 1}
  RSecrets = {"r0", "r1"}
  Conns = {"k0"}
  Enablers = {"wA", "wB"}
  FreeValues = {5}
  MaxWriters = 0
  MaxOps = 3
  Profile = "mut"
INVARIANT Inv_StateOK
INVARIANT C23_Bytes
PROPERTY C24_Atomic
PROPERTY C25_NoBackdate
PROPERTY C25_UnknownRenew
CHECK_DEADLOCK FALSE
