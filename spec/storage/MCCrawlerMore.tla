--------------------------- MODULE MCCrawlerMore ---------------------------
(* Model checking of the bucket counter and of the lease checker's
   book-keeping (CrawlerMore.tla): slice ends after any prefix (bucket counter)
   or any bucket / prefix (lease checker), kills at every point, graceful stops,
   restarts from the files, bucket directories that come and go between slices.
   The properties speak about what a status page / stats consumer sees
   (last-complete-bucket-count, the history), over ghost variables that only
   record which bucket directories existed during each cycle. *)
EXTENDS CrawlerMore

CONSTANTS KindSet,     \* subset of {"bc", "lc"}: which crawler(s) to explore
          Universe, MaxBuckets, MaxCycles, MaxKills, MaxChanges

VARIABLES kind,        \* which crawler this behaviour is about
          hist,        \* lease checker: the history file
          thr,         \* ghost: cycle -> buckets present ever since the cycle started
          ever,        \* ghost: cycle -> buckets present at some moment of the cycle
          fins,        \* ghost: cycles for which finished_cycle was called
          kills, changes
mvars == <<kind, disk, saved, V, pc, ev, hist, thr, ever, fins, kills, changes>>

Cycles == 0..(MaxCycles - 1)
IsBC == kind = "bc"

LoadK(sv) == IF IsBC THEN BCLoad(sv) ELSE LCLoad(sv)
PersistK(v) == IF IsBC THEN BCPersist(v) ELSE LCPersist(v)

Init ==
  /\ kind \in KindSet
  /\ \E d \in SUBSET Universe : Cardinality(d) <= MaxBuckets /\ disk = d
  /\ saved = IF IsBC THEN BCDefaultSaved ELSE LCDefaultSaved
  /\ V = LoadK(saved)
  /\ pc = "sleep"
  /\ ev = Ev("Init", 0, NoCycle)
  /\ hist = <<>>
  /\ thr = [c \in Cycles |-> {}] /\ ever = [c \in Cycles |-> {}]
  /\ fins = {}
  /\ kills = 0 /\ changes = 0

\* the cycle a running / sleeping crawler is in the middle of, from the files' point of view
Ghost(e) ==
  /\ ev' = e
  /\ thr' = IF e.a = "StartSlice" /\ V.cur = NoCycle THEN [thr EXCEPT ![e.c] = disk]
            ELSE IF e.a = "RemoveBucket" THEN [c \in Cycles |-> thr[c] \ {e.b}]
            ELSE thr
  /\ ever' = IF e.a = "StartSlice" /\ V.cur = NoCycle THEN [ever EXCEPT ![e.c] = disk]
             ELSE IF e.a = "AddBucket" THEN [c \in Cycles |-> ever[c] \cup {e.b}]
             ELSE ever
  /\ fins' = IF e.a = "FinishCycle" THEN fins \cup {e.c} ELSE fins
  /\ kills' = IF e.a \in {"Kill", "Stop"} THEN kills + 1 ELSE kills
  /\ changes' = IF e.a \in {"AddBucket", "RemoveBucket"} THEN changes + 1 ELSE changes

MStartSlice ==
  /\ pc = "sleep"
  /\ V' = (IF IsBC THEN BCStartSlice(V) ELSE LCStartSlice(V))
  /\ V'.cur < MaxCycles
  /\ pc' = "run" /\ UNCHANGED <<disk, saved, hist>>
  /\ Ghost(Ev("StartSlice", 0, V'.cur))

MPrefix ==
  /\ pc = "run"
  /\ IF IsBC THEN BCCanPrefix(V) /\ V' = BCPrefix(disk, V)
             ELSE LCCanFinishPrefix(disk, V) /\ V' = LCFinishPrefix(disk, V)
  /\ UNCHANGED <<disk, saved, pc, hist>>
  /\ Ghost(Ev("FinishPrefix", V.lcpi + 1, V.cur))

MProcessBucket ==
  /\ pc = "run" /\ ~IsBC /\ LCCanProcess(disk, V)
  /\ V' = LCProcessBucket(disk, V)
  /\ UNCHANGED <<disk, saved, pc, hist>>
  /\ Ghost(Ev("ProcessBucket", V'.lcb, V.cur))

MSliceEnd ==
  /\ pc = "run" /\ CanSliceEnd(V)
  /\ V' = [V EXCEPT !.at = "top"] /\ saved' = PersistK(V)
  /\ pc' = "sleep" /\ UNCHANGED <<disk, hist>>
  /\ Ghost(Ev("SliceEnd", 0, V.cur))

\* finished_cycle: the bucket counter publishes its count, the lease checker writes the history file
MFinishCycle ==
  /\ pc = "run" /\ CanFinishCycle(V)
  /\ V' = (IF IsBC THEN BCFinishCycle(V) ELSE LCFinishCycle(V))
  /\ hist' = (IF IsBC THEN hist ELSE HistAdd(hist, V.cur, V.exam))
  /\ pc' = "finishing" /\ UNCHANGED <<disk, saved>>
  /\ Ghost(Ev("FinishCycle", 0, V.cur))

MSaveCycle ==
  /\ pc = "finishing"
  /\ saved' = PersistK(V)
  /\ pc' = "sleep" /\ UNCHANGED <<disk, V, hist>>
  /\ Ghost(Ev("SaveCycle", 0, V.lcf))

\* SIGKILL at any point: only the files survive
MKill ==
  /\ pc # "dead" /\ kills < MaxKills
  /\ pc' = "dead" /\ V' = LoadK(saved) /\ UNCHANGED <<disk, saved, hist>>
  /\ Ghost(Ev("Kill", 0, NoCycle))

\* stopService() while the crawler sleeps: the state is saved first
MStop ==
  /\ pc = "sleep" /\ kills < MaxKills
  /\ saved' = PersistK(V)
  /\ pc' = "dead" /\ V' = LoadK(saved') /\ UNCHANGED <<disk, hist>>
  /\ Ghost(Ev("Stop", 0, NoCycle))

MRestart ==
  /\ pc = "dead"
  /\ pc' = "sleep" /\ V' = LoadK(saved) /\ UNCHANGED <<disk, saved, hist>>
  /\ Ghost(Ev("Restart", 0, saved.cur))

MAddBucket ==
  \E b \in Universe \ disk :
    /\ pc \in {"sleep", "dead"} /\ changes < MaxChanges
    /\ disk' = disk \cup {b} /\ UNCHANGED <<saved, V, pc, hist>>
    /\ Ghost(Ev("AddBucket", b, NoCycle))

MRemoveBucket ==
  \E b \in disk :
    /\ pc \in {"sleep", "dead"} /\ changes < MaxChanges
    /\ disk' = disk \ {b} /\ UNCHANGED <<saved, V, pc, hist>>
    /\ Ghost(Ev("RemoveBucket", b, NoCycle))

Next == /\ \/ MStartSlice \/ MPrefix \/ MProcessBucket \/ MSliceEnd \/ MFinishCycle \/ MSaveCycle
           \/ MKill \/ MStop \/ MRestart \/ MAddBucket \/ MRemoveBucket
        /\ UNCHANGED kind

Spec == Init /\ [][Next]_mvars

(* ------------------------------ properties ------------------------------ *)
Within(n, c) == Cardinality(thr[c]) <= n /\ n <= Cardinality(ever[c])

\* every finished cycle publishes a count, whatever happened to the process during the cycle, and
\* the count lies between the buckets that were there all the time and those that were there at all
BC_EveryCycleCounts ==
  [][(IsBC /\ ev'.a = "FinishCycle") => (V'.last # NoCount /\ Within(V'.last, ev'.c))]_mvars
\* a state file that says "cycle c is finished" also carries a count: nothing is lost by a restart
BC_CountPersistent == IsBC => (saved.lcf # NoCycle => saved.last # NoCount)
BC_RestartKeepsCount == [][(IsBC /\ ev'.a = "Restart") => V'.last = saved.last]_mvars
\* the published count only changes when a cycle finishes
BC_CountOnlyAtCycleEnd ==
  [][(IsBC /\ pc # "dead" /\ pc' # "dead" /\ V'.last # V.last) => ev'.a = "FinishCycle"]_mvars

\* the history holds exactly the most recent MaxHist finished cycles, one entry each
Newest(S, k) == {c \in S : Cardinality({d \in S : d > c}) < k}
LC_HistoryIsLastCycles == ~IsBC => DOMAIN hist = Newest(fins, MaxHist)
LC_HistoryAtMost == ~IsBC => Cardinality(DOMAIN hist) <= MaxHist
\* an entry says how many buckets the cycle examined: all that were there throughout, none twice
LC_ExaminedBounds ==
  [][(~IsBC /\ ev'.a = "FinishCycle") => (ev'.c \in DOMAIN hist' /\ Within(hist'[ev'.c], ev'.c))]_mvars
\* finishing a cycle never rewrites the entry of another cycle
LC_OtherEntriesKept ==
  [][\A c \in (DOMAIN hist) \cap (DOMAIN hist') : (c # ev'.c \/ ev'.a # "FinishCycle") => hist'[c] = hist[c]]_mvars
\* the cycle-to-date counter survives a restart together with the position
LC_RestartKeepsProgress == [][(~IsBC /\ ev'.a = "Restart") => (V'.exam = saved.exam /\ V'.lcpi = saved.lcp /\ V'.cur = saved.cur)]_mvars

TypeOK ==
  /\ pc \in {"sleep", "run", "finishing", "dead"}
  /\ V.lcpi \in 0..NP /\ saved.lcp \in 0..NP
=============================================================================
