------------------------------ MODULE Expirer ------------------------------
(* Lease expiry / garbage collection of the storage server, shaped like
   allmydata/storage/expirer.py LeaseCheckingCrawler (process_bucket ->
   process_share -> cancel_lease) as documented in docs/garbage-collection.rst:

     age mode:     a lease is expired iff  create_renew + duration < now, where duration is the
                   lease's own duration (fixed: 31 days) or expire.override_lease_duration
     cutoff mode:  a lease is expired iff  create_renew < cutoff_date
     expire.enabled = false: nothing is ever removed
     expire.immutable / expire.mutable = false: shares of that type are never removed
     a share is deleted when all of its leases have expired (the expired leases of a share
     that keeps at least one valid lease are cancelled, the share stays)

   Times are seconds since the epoch (below 2^31).  A lease is its create/renew
   timestamp (the container stores timestamp + 31 days as the expiration time).
   A configuration is [enabled, mode, override, cutoff, types] with override = NoOverride
   when expire.override_lease_duration is absent.

   Cancel secrets.  The crawler removes a lease with cancel_lease(cancel secret), which removes *every*
   lease of the container that carries that secret.  A share is [id, type, leases, sec]: sec = "distinct"
   (every lease has a cancel secret of its own - what honest clients produce) or "shared" (all leases of
   the share carry one cancel secret, renew secrets differ - any client may choose its secrets so).  With
   a shared secret an expired lease cannot be cancelled without cancelling the valid ones: while the
   share keeps a valid lease nothing is cancelled; when every lease is expired the share goes. *)
EXTENDS Common

CONSTANTS Now,        \* the time at which the crawl cycle runs
          Duration    \* the fixed lease duration (31 days)

NoOverride == -1

\* expirer.py process_share, the per-lease decision ("expired-or-not according to our configured age limit"),
\* for a cycle that runs at time `now`
ExpiredAt(cfg, renew, now) ==
  IF cfg.mode = "age"
    THEN renew + (IF cfg.override = NoOverride THEN Duration ELSE cfg.override) < now
    ELSE renew < cfg.cutoff
Expired(cfg, renew) == ExpiredAt(cfg, renew, Now)

\* `if sharetype not in self.sharetypes_to_expire: expired = False`
LeaseRemovableAt(cfg, share, renew, now) == share.type \in cfg.types /\ ExpiredAt(cfg, renew, now)
LeaseRemovable(cfg, share, renew) == LeaseRemovableAt(cfg, share, renew, Now)

\* the leases a share keeps after process_share (cancel_lease for every removable lease, if enabled)
LeasesAfterAt(cfg, share, now) ==
  LET valid == {r \in share.leases : ~LeaseRemovableAt(cfg, share, r, now)} IN
  IF ~cfg.enabled THEN share.leases
  ELSE IF share.sec = "shared" /\ valid # {} THEN share.leases
  ELSE valid
LeasesAfter(cfg, share) == LeasesAfterAt(cfg, share, Now)

\* cancel_lease unlinks the container when no lease is left
DeletedAt(cfg, share, now) == cfg.enabled /\ share.type \in cfg.types /\ LeasesAfterAt(cfg, share, now) = {}
Deleted(cfg, share) == DeletedAt(cfg, share, Now)

\* one crawl cycle over a set of shares: what is left
CycleAt(cfg, shares, now) ==
  {[id |-> s.id, type |-> s.type, sec |-> s.sec, leases |-> LeasesAfterAt(cfg, s, now),
    \* the leases that are still valid: what a survivor must keep whatever the removal primitive can do.  With a shared
    \* cancel secret the statement leaves open whether the expired ones stay (cancel_lease by secret cannot remove them
    \* alone) or go (a primitive that removes exactly the expired records): anything between `valid` and `leases` is right
    valid |-> IF cfg.enabled THEN {r \in s.leases : ~LeaseRemovableAt(cfg, s, r, now)} ELSE s.leases]
     : s \in {t \in shares : ~DeletedAt(cfg, t, now)}}
Cycle(cfg, shares) == CycleAt(cfg, shares, Now)

\* space-recovered counters of the cycle (numbers of shares)
Examined(cfg, shares) == Cardinality(shares)
ConfiguredCount(cfg, shares) == Cardinality({s \in shares : s.type \in cfg.types /\ \A r \in s.leases : Expired(cfg, r)})
ActualCount(cfg, shares) == IF cfg.enabled THEN ConfiguredCount(cfg, shares) ELSE 0

(* ---- C26, stated without the operators above ------------------------------ *)
\* with expiration disabled nothing is deleted and no lease is removed
C26_Disabled(cfg, shares, after) ==
  ~cfg.enabled => after = {[id |-> s.id, type |-> s.type, sec |-> s.sec, leases |-> s.leases, valid |-> s.leases] : s \in shares}

DocExpired(cfg, r) ==
  \/ cfg.mode = "age" /\ cfg.override = NoOverride /\ r + Duration < Now
  \/ cfg.mode = "age" /\ cfg.override # NoOverride /\ r + cfg.override < Now
  \/ cfg.mode = "cutoff-date" /\ r < cfg.cutoff

\* a share is gone after the cycle iff enabled, its type is selected and every lease is expired
C26_Exact(cfg, shares, after) ==
  \A s \in shares :
    (s.id \notin {a.id : a \in after}) <=> (cfg.enabled /\ s.type \in cfg.types /\ \A r \in s.leases : DocExpired(cfg, r))

\* a surviving share never loses a valid lease
C26_ValidLeasesKept(cfg, shares, after) ==
  \A s \in shares : \A a \in after : a.id = s.id => {r \in s.leases : ~DocExpired(cfg, r)} \subseteq a.leases
=============================================================================
