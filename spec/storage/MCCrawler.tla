----------------------------- MODULE MCCrawler -----------------------------
(* Model checking of the crawler design (Crawler.tla): every placement of time
   slice ends (after any bucket / prefix), process kills at every point with
   restart from the state file, and share directories that come and go between
   slices.  C27 is stated over ghost variables that only record what
   process_bucket / finished_cycle were called with. *)
EXTENDS Crawler

CONSTANTS Universe,    \* bucket names that may exist
          MaxBuckets,  \* initial bucket sets have at most this many elements
          MaxCycles,   \* cycles 0 .. MaxCycles-1 are explored
          MaxKills, MaxChanges

VARIABLES proc,     \* ghost: cycle -> bucket -> number of process_bucket calls
          thr,      \* ghost: cycle -> buckets present since the cycle started (so far)
          killedIn, \* ghost: cycles during which the process was killed in the middle of a slice
          fin,      \* ghost: sequence of cycle numbers passed to finished_cycle, with "kill since the last one"
          kills, changes, killSinceFin
vars == <<disk, saved, V, pc, ev, proc, thr, killedIn, fin, kills, changes, killSinceFin>>

Cycles == 0..(MaxCycles - 1)

Init ==
  /\ \E d \in SUBSET Universe : Cardinality(d) <= MaxBuckets /\ CInit(d)
  /\ proc = [c \in Cycles |-> [b \in Universe |-> 0]]
  /\ thr = [c \in Cycles |-> {}]
  /\ killedIn = {}
  /\ fin = <<>>
  /\ kills = 0 /\ changes = 0 /\ killSinceFin = FALSE

\* the cycle the crawler is working on (volatile view), NoCycle between cycles
Ghost ==
  /\ proc' = IF ev'.a = "ProcessBucket" THEN [proc EXCEPT ![ev'.c][ev'.b] = @ + 1] ELSE proc
  /\ thr' = IF ev'.a = "StartSlice" /\ V.cur = NoCycle THEN [thr EXCEPT ![ev'.c] = disk]
            ELSE IF ev'.a = "RemoveBucket" THEN [c \in Cycles |-> thr[c] \ {ev'.b}]
            ELSE thr
  /\ killedIn' = IF ev'.a = "Kill" /\ pc \in {"run", "finishing"}
                   THEN killedIn \cup {IF pc = "run" THEN V.cur ELSE V.lcf} ELSE killedIn
  /\ fin' = IF ev'.a = "FinishCycle" THEN Append(fin, [c |-> ev'.c, afterKill |-> killSinceFin]) ELSE fin
  /\ killSinceFin' = IF ev'.a = "Kill" THEN TRUE ELSE IF ev'.a = "FinishCycle" THEN FALSE ELSE killSinceFin
  /\ kills' = IF ev'.a = "Kill" THEN kills + 1 ELSE kills
  /\ changes' = IF ev'.a \in {"AddBucket", "RemoveBucket"} THEN changes + 1 ELSE changes

MStartSlice == AStartSlice /\ ev'.c < MaxCycles /\ Ghost
MProcessBucket == AProcessBucket /\ Ghost
MFinishPrefix == AFinishPrefix /\ Ghost
MSliceEnd == ASliceEnd /\ Ghost
MFinishCycle == AFinishCycle /\ Ghost
MSaveCycle == ASaveCycle /\ Ghost
MKill == kills < MaxKills /\ AKill /\ Ghost
MRestart == ARestart /\ Ghost
MAddBucket == changes < MaxChanges /\ (\E b \in Universe : AAddBucket(b)) /\ Ghost
MRemoveBucket == changes < MaxChanges /\ (\E b \in Universe : ARemoveBucket(b)) /\ Ghost

Next == \/ MStartSlice \/ MProcessBucket \/ MFinishPrefix \/ MSliceEnd \/ MFinishCycle \/ MSaveCycle
        \/ MKill \/ MRestart \/ MAddBucket \/ MRemoveBucket

Spec == Init /\ [][Next]_vars

(* ---- C27 ---------------------------------------------------------------- *)
\* whenever finished_cycle(c) is called, every bucket that existed throughout c was processed
C27_Cover ==
  [][ev'.a = "FinishCycle" => \A b \in thr[ev'.c] : proc[ev'.c][b] >= 1]_vars

\* ... exactly once (and nothing twice) unless the process was killed in the middle of a slice of c
C27_Once ==
  [][(ev'.a = "FinishCycle" /\ ev'.c \notin killedIn)
       => /\ \A b \in thr[ev'.c] : proc[ev'.c][b] = 1
          /\ \A b \in Universe : proc[ev'.c][b] <= 1]_vars

\* cycle numbers: the first cycle is 0; finished_cycle numbers go up by one, or repeat the
\* last one only when a kill lost the record of it; the state file's counter moves by +1;
\* the cycle in progress is always the successor of the last finished one
C27_CycleNums_Inv ==
  /\ (V.cur # NoCycle => V.cur = V.lcf + 1)
  /\ (saved.cur # NoCycle => saved.cur = saved.lcf + 1)
  /\ (pc \in {"sleep", "run"} /\ V.cur # NoCycle => V.cur = saved.lcf + 1)
  /\ \A i \in 1..Len(fin) :
       IF i = 1 THEN fin[i].c = 0
       ELSE \/ fin[i].c = fin[i-1].c + 1
            \/ (fin[i].c = fin[i-1].c /\ fin[i].afterKill)
C27_CycleNums ==
  [][saved'.lcf # saved.lcf => (saved'.lcf = saved.lcf + 1 /\ saved'.cur = NoCycle /\ saved'.lcp = 0 /\ saved'.lcb = 0)]_vars

\* sanity of the machine itself
TypeOK ==
  /\ pc \in {"sleep", "run", "finishing", "dead"}
  /\ V.lcpi \in 0..NP /\ saved.lcp \in 0..NP
  /\ (V.cur = NoCycle /\ pc # "dead" => V.lcpi = 0 /\ V.lcb = 0)
=============================================================================
