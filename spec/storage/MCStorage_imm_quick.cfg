SPECIFICATION Spec
CONSTANTS
  SIsI = {"i0"}
  SIsM = {"m0"}
  Shares = {"0", "1"}
  Sizes = {2}
  Bytes = {0, 1}
  RSecrets = {"r0", "r1"}
  Conns = {"k0"}
  Enablers = {"wA"}
  FreeValues = {3, 5}
  MaxWriters = 3
  MaxOps = 6
  Profile = "imm"
INVARIANT Inv_StateOK
INVARIANT C22_Visible
INVARIANT C22_ReadBack
PROPERTY C22_RejectedWriteNoChange
PROPERTY C22_NoTrace
PROPERTY C28_NoOvercommit_Inv
PROPERTY C28_Release
PROPERTY C25_NoBackdate
PROPERTY C25_UnknownRenew
CHECK_DEADLOCK FALSE
