---------------------------- MODULE CrawlerMore ----------------------------
(* The two crawlers every storage server runs (server.py: add_bucket_counter,
   lease_checker), as payloads on top of the ShareCrawler machine of
   Crawler.tla:

   * BucketCountingCrawler (crawler.py): overrides process_prefixdir, so it never
     looks at single buckets; per prefix it records len(buckets); when a cycle
     ends and every prefix has a count, "last-complete-bucket-count" is their
     sum.  Documented: class docstring "I keep track of how many buckets are
     being managed by this server"; docs/stats.rst total_bucket_count "counts
     the number of 'buckets' (i.e. unique storage-index values) currently
     managed by the storage server"; ShareCrawler docstring "Any keys added to
     self.state will be preserved" and "The statefile will be updated and
     written to disk after each time slice ..., after each cycle is finished,
     and also when stopService() is called".
   * LeaseCheckingCrawler (expirer.py), here only its book-keeping: the
     cycle-to-date counters (examined-buckets) kept in the state file and the
     history file: get_state docstring "history: maps cyclenum to a dict with
     the following keys: cycle-start-finish-times, expiration-enabled,
     configured-expiration-mode, lease-age-histogram,
     leases-per-share-histogram, corrupt-shares, space-recovered"; class
     docstring "... during the last 10 cycles <-- saved in separate pickle";
     docs/garbage-collection.rst "The crawler's state is persistent: restarting
     the node will not cause it to lose significant progress."

   The volatile object V and the state file `saved` of Crawler.tla get extra
   fields (records are extended with @@, the position operators of Crawler.tla are
   applied unchanged):
     bucket counter:  cnt   prefix -> count recorded in cycle cntc (-1 = none)
                      cntc  the cycle the counts belong to
                      last  last-complete-bucket-count (NoCount = None)
     lease checker:   exam  examined-buckets of the cycle-to-date
   and the lease checker has a second file  hist: cycle -> examined-buckets of
   that cycle, written by finished_cycle before the state file is saved. *)
EXTENDS Crawler

CONSTANT MaxHist      \* how many history entries are kept (10)

NoCount == -1
Prefixes == 1..NP

(* ------------------------------ bucket counter --------------------------- *)
BCExtra0 == [cnt |-> [p \in Prefixes |-> NoCount], cntc |-> NoCycle, last |-> NoCount]
BCPayload(x) == [cnt |-> x.cnt, cntc |-> x.cntc, last |-> x.last]
BCDefaultSaved == DefaultSaved @@ BCExtra0
BCLoad(sv) == Load(sv) @@ BCPayload(sv)              \* load_state + add_initial_state (setdefault)
BCPersist(v) == Persist(v) @@ BCPayload(v)           \* save_state: the whole state dictionary

BCStartSlice(v) == StartSlice(v).V

\* process_prefixdir (overridden) + finished_prefix of the next prefix: the listing is taken now
BCCanPrefix(v) == v.lcpi < NP
BCPrefix(d, v) ==
  LET p == v.lcpi + 1
      n == Cardinality({b \in d : PrefixOf(b) = p})
      base == IF v.cntc = v.cur THEN v.cnt ELSE [q \in Prefixes |-> NoCount]
      w == FinishPrefix(d, v).V
  IN [w EXCEPT !.cnt = [base EXCEPT ![p] = n], !.cntc = v.cur]

\* finished_cycle: "great, we have a whole cycle"
BCCanFinishCycle(v) == CanFinishCycle(v)
BCFinishCycle(v) ==
  LET w == FinishCycle(v).V
      whole == v.cntc = v.cur /\ \A p \in Prefixes : v.cnt[p] # NoCount
  IN IF whole THEN [w EXCEPT !.last = SumOver(v.cnt, Prefixes)] ELSE w

\* get_stats(): total_bucket_count is only present when the count is non-zero (0 = absent)
StatTotal(v) == IF v.last = NoCount THEN 0 ELSE v.last

(* ------------------------------ lease checker ---------------------------- *)
LCExtra0 == [exam |-> 0]
LCPayload(x) == [exam |-> x.exam]
LCDefaultSaved == DefaultSaved @@ LCExtra0
LCLoad(sv) == Load(sv) @@ LCPayload(sv)
LCPersist(v) == Persist(v) @@ LCPayload(v)

\* started_cycle resets the cycle-to-date counters
LCStartSlice(v) ==
  LET w == StartSlice(v).V IN IF v.cur = NoCycle THEN [w EXCEPT !.exam = 0] ELSE w

LCCanProcess(d, v) == CanProcess(d, v)
\* the listing may be the cached one of the previous slice: a bucket that vanished since is not examined
LCProcessBucket(d, v) == [ProcessBucket(d, v).V EXCEPT !.exam = v.exam + (IF Head(Todo(d, v)) \in d THEN 1 ELSE 0)]
LCCanFinishPrefix(d, v) == CanFinishPrefix(d, v)
LCFinishPrefix(d, v) == FinishPrefix(d, v).V
LCCanFinishCycle(v) == CanFinishCycle(v)
LCFinishCycle(v) == FinishCycle(v).V

\* history: a function from a set of cycle numbers to the examined-buckets count of that cycle.
\* finished_cycle(c): history[c] = h; while len(history) > 10: delete the oldest
RECURSIVE Prune(_)
Prune(h) == IF Cardinality(DOMAIN h) <= MaxHist THEN h
            ELSE LET o == SetMin(DOMAIN h) IN Prune([c \in (DOMAIN h) \ {o} |-> h[c]])
HistAdd(h, c, n) == Prune([x \in (DOMAIN h) \cup {c} |-> IF x = c THEN n ELSE h[x]])

\* the keys every history entry carries (get_state docstring)
HistKeys == {"cycle-start-finish-times", "expiration-enabled", "configured-expiration-mode",
             "lease-age-histogram", "leases-per-share-histogram", "corrupt-shares", "space-recovered"}
=============================================================================
