------------------------------ MODULE Crawler ------------------------------
(* The share crawler of the storage server, shaped like
   allmydata/storage/crawler.py ShareCrawler.

   Prefix directories are 1..NP (the real crawler has 1024 two-character
   prefixes; the conformance driver maps NP of them to 1..NP and keeps all the
   others empty).  A bucket is a natural number b with prefix b \div 10, so the
   numeric order is the order of os.listdir()+sort() and of the string
   comparison `bucket <= last_complete`.

   State of the machine:
     disk   the bucket directories that exist (the crawler only reads it)
     saved  the state file (save_state / load_state):
              lcf  "last-cycle-finished"  (-1 = None)
              cur  "current-cycle"        (-1 = None)
              lcp  "last-complete-prefix" as the NUMBER of complete prefixes (0 = None)
              lcb  "last-complete-bucket" (0 = None)
     V      the volatile object: lcf, cur, lcb as above, lcpi = last_complete_prefix_index + 1,
            cidx/clist = bucket_cache (cidx 0 = None), at = "top" | "check" (a time check
            `time.time() >= start_slice + cpu_slice` is being evaluated)
     pc     "sleep" (between slices), "run" (inside start_current_prefix),
            "finishing" (cycle finished in memory, save_state not yet done), "dead" (killed)

   Every operator below is one critical section of the code; each has the form
   Xxx(disk, saved, V) = [saved |-> ..., V |-> ..., pc |-> ..., ev |-> event] so that the MC
   module, the behaviour generator and the conformance comparison share one definition. *)
EXTENDS Common

CONSTANT NP

NoCycle == -1
PrefixOf(b) == b \div 10

RECURSIVE SortedSeq(_)
SortedSeq(S) == IF S = {} THEN <<>> ELSE LET m == SetMin(S) IN <<m>> \o SortedSeq(S \ {m})

DefaultSaved == [lcf |-> NoCycle, cur |-> NoCycle, lcp |-> 0, lcb |-> 0]
DeadV == [lcf |-> NoCycle, cur |-> NoCycle, lcpi |-> 0, lcb |-> 0, cidx |-> 0, clist |-> <<>>, at |-> "top"]

\* load_state(): the object a new process builds from the state file
Load(saved) == [lcf |-> saved.lcf, cur |-> saved.cur, lcpi |-> saved.lcp, lcb |-> saved.lcb,
                cidx |-> 0, clist |-> <<>>, at |-> "top"]
\* save_state(): what the state file holds afterwards
Persist(V) == [lcf |-> V.lcf, cur |-> V.cur, lcp |-> V.lcpi, lcb |-> V.lcb]

Ev(a, b, c) == [a |-> a, b |-> b, c |-> c]

\* start_current_prefix: `if i == self.bucket_cache[0]: buckets = cache else: listdir+sort`
Listing(disk, V) ==
  LET i == V.lcpi + 1 IN
  IF V.cidx = i THEN V.clist ELSE SortedSeq({b \in disk : PrefixOf(b) = i})

\* process_prefixdir: buckets not skipped by `bucket <= last_complete`
Todo(disk, V) == SelectSeq(Listing(disk, V), LAMBDA b : V.lcb = 0 \/ b > V.lcb)

(* start_slice + head of start_current_prefix: a new cycle is numbered
   last-cycle-finished + 1 (0 if None) *)
StartSlice(V) ==
  IF V.cur = NoCycle
    THEN [V |-> [V EXCEPT !.cur = V.lcf + 1, !.at = "top"], ev |-> Ev("StartSlice", 0, V.lcf + 1)]
    ELSE [V |-> [V EXCEPT !.at = "top"], ev |-> Ev("StartSlice", 0, V.cur)]

CanProcess(disk, V) == V.lcpi < NP /\ Todo(disk, V) # <<>>
ProcessBucket(disk, V) ==
  LET b == Head(Todo(disk, V)) IN
  [V |-> [V EXCEPT !.lcb = b, !.cidx = V.lcpi + 1, !.clist = Listing(disk, V), !.at = "check"],
   ev |-> Ev("ProcessBucket", b, V.cur)]

CanFinishPrefix(disk, V) == V.lcpi < NP /\ Todo(disk, V) = <<>>
FinishPrefix(disk, V) ==
  [V |-> [V EXCEPT !.lcpi = V.lcpi + 1, !.cidx = V.lcpi + 1, !.clist = Listing(disk, V), !.at = "check"],
   ev |-> Ev("FinishPrefix", V.lcpi + 1, V.cur)]

\* TimeSliceExceeded -> start_slice: save_state(), sleep
CanSliceEnd(V) == V.at = "check"
SliceEnd(V) == [V |-> [V EXCEPT !.at = "top"], saved |-> Persist(V), ev |-> Ev("SliceEnd", 0, V.cur)]

\* tail of start_current_prefix before its save_state(): finished_cycle(cycle) is called here
CanFinishCycle(V) == V.lcpi = NP
FinishCycle(V) ==
  [V |-> [V EXCEPT !.lcpi = 0, !.lcb = 0, !.lcf = V.cur, !.cur = NoCycle, !.at = "top"],
   ev |-> Ev("FinishCycle", 0, V.cur)]
\* save_state() at the end of start_current_prefix (and again, unchanged, in start_slice)
SaveCycle(V) == [V |-> V, saved |-> Persist(V), ev |-> Ev("SaveCycle", 0, V.lcf)]

(* ------------------------------------------------------------------------ *)
VARIABLES disk, saved, V, pc, ev
cvars == <<disk, saved, V, pc, ev>>

CInit(disk0) ==
  /\ disk = disk0
  /\ saved = DefaultSaved
  /\ V = Load(DefaultSaved)
  /\ pc = "sleep"
  /\ ev = Ev("Init", 0, NoCycle)

AStartSlice ==
  /\ pc = "sleep"
  /\ LET r == StartSlice(V) IN V' = r.V /\ ev' = r.ev
  /\ pc' = "run" /\ UNCHANGED <<disk, saved>>

AProcessBucket ==
  /\ pc = "run" /\ CanProcess(disk, V)
  /\ LET r == ProcessBucket(disk, V) IN V' = r.V /\ ev' = r.ev
  /\ UNCHANGED <<disk, saved, pc>>

AFinishPrefix ==
  /\ pc = "run" /\ CanFinishPrefix(disk, V)
  /\ LET r == FinishPrefix(disk, V) IN V' = r.V /\ ev' = r.ev
  /\ UNCHANGED <<disk, saved, pc>>

ASliceEnd ==
  /\ pc = "run" /\ CanSliceEnd(V)
  /\ LET r == SliceEnd(V) IN V' = r.V /\ saved' = r.saved /\ ev' = r.ev
  /\ pc' = "sleep" /\ UNCHANGED disk

AFinishCycle ==
  /\ pc = "run" /\ CanFinishCycle(V)
  /\ LET r == FinishCycle(V) IN V' = r.V /\ ev' = r.ev
  /\ pc' = "finishing" /\ UNCHANGED <<disk, saved>>

ASaveCycle ==
  /\ pc = "finishing"
  /\ LET r == SaveCycle(V) IN V' = r.V /\ saved' = r.saved /\ ev' = r.ev
  /\ pc' = "sleep" /\ UNCHANGED disk

\* SIGKILL: everything but the state file and the share directories is lost
AKill ==
  /\ pc # "dead"
  /\ pc' = "dead" /\ V' = DeadV /\ ev' = Ev("Kill", 0, NoCycle)
  /\ UNCHANGED <<disk, saved>>

\* a new process: ShareCrawler.__init__ -> load_state
ARestart ==
  /\ pc = "dead"
  /\ pc' = "sleep" /\ V' = Load(saved) /\ ev' = Ev("Restart", 0, saved.cur)
  /\ UNCHANGED <<disk, saved>>

(* The rest of the server changes the share directories only while the crawler
   has yielded (the crawler runs synchronously inside one reactor turn). *)
AAddBucket(b) ==
  /\ pc \in {"sleep", "dead"} /\ b \notin disk
  /\ disk' = disk \cup {b} /\ ev' = Ev("AddBucket", b, NoCycle)
  /\ UNCHANGED <<saved, V, pc>>

ARemoveBucket(b) ==
  /\ pc \in {"sleep", "dead"} /\ b \in disk
  /\ disk' = disk \ {b} /\ ev' = Ev("RemoveBucket", b, NoCycle)
  /\ UNCHANGED <<saved, V, pc>>

CrawlNext == AStartSlice \/ AProcessBucket \/ AFinishPrefix \/ ASliceEnd \/ AFinishCycle \/ ASaveCycle
=============================================================================
