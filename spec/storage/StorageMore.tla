---------------------------- MODULE StorageMore ----------------------------
(* The storage server beyond buckets, slots and leases (Storage.tla):

   * corruption advisories  (server.py advise_corrupt_share, immutable.py
     BucketReader.advise_corrupt_share; interfaces.py RIStorageServer /
     RIBucketReader.advise_corrupt_share: "I will record their concern so that
     my operator can manually inspect the shares in question. I return None.";
     docs/specifications/http-storage-node-protocol.rst ".../corrupt": "If the
     identified storage index and share number are known to the server then the
     response SHOULD be accepted and made available to server administrators")
   * the version message  (server.py get_version; http-storage-node-protocol.rst
     "GET /storage/v1/version": available-space is "the amount of space that it
     currently considers unused and is willing to allocate for client requests";
     allocate: "The server SHOULD accept a value for allocated-size that is less
     than or equal to the lesser of ... maximum-immutable-share-size or
     available-space")

   * a restart of the node with another readonly_storage setting (Reconfigure):
     the way a server that holds shares becomes read-only

   As in Storage.tla every entry point is an operator over the explicit server
   state S.  The advisories are a set `adv` of report records next to S.  A
   report is a file on the same disk as the shares: writing one makes the disk
   that is left for shares smaller (S.capacity shrinks by the size of the report),
   which is why the server refuses a report that does not fit the available
   space. *)
EXTENDS Storage

(* ------------------------ corruption advisories -------------------------- *)
\* "shares the server holds": what get_buckets / slot_readv would list.  An upload in
\* progress is not a share yet.
HoldsShare(S, si, sh) ==
  IF si \in DOMAIN S.imm THEN sh \in DOMAIN S.imm[si] /\ S.imm[si][sh].st = "final"
  ELSE IF si \in DOMAIN S.mut THEN sh \in DOMAIN S.mut[si] /\ S.mut[si][sh].present
  ELSE FALSE

\* replen: the size of the report text (the operator-readable rendering of type, storage
\* index, share number and reason)
AdviseAccepts(S, si, sh, replen) == HoldsShare(S, si, sh) /\ replen <= AvailableSpace(S)

Report(type, si, sh, reason) == [type |-> type, si |-> si, sh |-> sh, reason |-> reason]

\* the answer is None in every case (nothing about the server's holdings is disclosed)
AdviseRes(S, si, sh, replen) == "none"

\* the share state is untouched; the report takes its bytes from the disk
Advise(S, si, sh, replen) ==
  IF AdviseAccepts(S, si, sh, replen) THEN [S EXCEPT !.capacity = @ - replen] ELSE S
AdviseAdv(adv, S, type, si, sh, reason, replen) ==
  IF AdviseAccepts(S, si, sh, replen) THEN adv \cup {Report(type, si, sh, reason)} ELSE adv

\* BucketReader.advise_corrupt_share(reason): the reader is tied to one immutable share
ReaderAdviseType == "immutable"

(* ---------------------------- version message ---------------------------- *)
\* allocate_buckets: `remaining_space = get_available_space() - allocated_size()`; this is the
\* amount the server is willing to allocate for a client request right now
Allocatable(S) == Max(0, AvailableSpace(S) - Full(S))

MaxMutableShareSize == "69105000000000000"      \* MAX_MUTABLE_SHARE_SIZE, beyond TLC's integers: compared as text

VersionFlags == [overrun |-> TRUE,       \* tolerates-immutable-read-overrun
                 delzero |-> TRUE,       \* delete-mutable-shares-with-zero-length-writev
                 fillzero |-> TRUE,      \* fills-holes-with-zero-bytes
                 noreadpast |-> TRUE]    \* prevents-read-past-end-of-share-data

VersionRes(S) == [avail |-> Allocatable(S), maximm |-> Allocatable(S), maxmut |-> MaxMutableShareSize,
                  flags |-> VersionFlags, appver |-> TRUE]

(* --------------------------- reconfiguration ----------------------------- *)
\* The node is stopped (stopService aborts every upload in progress) and started again on the same
\* directory with a different readonly_storage setting: the shares and the advisories stay.
Reconfigure(S, ro) ==
  [S EXCEPT !.readonly = ro,
            !.imm = [si \in DOMAIN S.imm |-> [sh \in DOMAIN S.imm[si] |->
                       IF S.imm[si][sh].st = "incoming" THEN AbsentB ELSE S.imm[si][sh]]]]

(* ---- what the documents promise, stated without the operators above ---- *)
\* the version message and allocation agree: a single new share of any advertised size is
\* accepted
AdvertisedIsAllocatable(S, v, si, sh) ==
  \A size \in 1..Min(v.avail, v.maximm) :
     S.imm[si][sh].st = "absent" => AllocCount(S, si, {sh}, size) = 1
\* ... and never advertises space that no sound accounting could hand out (C28: what is accepted
\* plus what the uploads in progress can still consume fits in the available space)
NoOverAdvertise(S, v) == Min(v.avail, v.maximm) <= Max(0, AvailableSpace(S) - Need(S))

\* Conformance: any accounting of the uploads in progress between Need and Full (see Storage.tla,
\* InProgressReportOK) gives an acceptable advertisement
VersionAvailOK(S, n) == Allocatable(S) <= n /\ n <= Max(0, AvailableSpace(S) - Need(S))
=============================================================================
