---------------------------- MODULE GenExpirer ----------------------------
(* GEN mode for C26: every policy configuration class x shares of both types
   carrying every subset (0..MaxLeases leases) of renewal times placed on both
   sides of that configuration's threshold.  One case = one configuration with
   all its shares and the result of one crawl cycle computed by Expirer.tla;
   harness/expirer_driver.py builds the same server through the client's
   tahoe.cfg parsing, runs a real LeaseCheckingCrawler cycle with the clocks
   pinned at Now and compares.  The C26 clauses are invariants of the table. *)
EXTENDS Expirer, Json, IOUtils, SequencesExt

CONSTANTS Overrides,   \* override durations (seconds) besides "none"
          Cutoffs,     \* cutoff dates (seconds, midnight UTC)
          Before, After, \* renewal times are threshold - b (b in Before), threshold + a (a in After) ...
          Old, Recent, \* ... plus Now - Old and Now - Recent
          MaxLeases,
          Shift        \* a second cycle runs at Now + Shift (after a restart of the server or not), on what the first one left

Types == {"mutable", "immutable"}

ModeClasses ==
  {[mode |-> "age", override |-> o, cutoff |-> 0] : o \in Overrides \cup {NoOverride}}
  \cup {[mode |-> "cutoff-date", override |-> NoOverride, cutoff |-> c] : c \in Cutoffs}

Configs == {[enabled |-> e, mode |-> m.mode, override |-> m.override, cutoff |-> m.cutoff, types |-> t] :
              e \in BOOLEAN, m \in ModeClasses, t \in SUBSET Types}

Threshold(cfg) == IF cfg.mode = "age" THEN Now - (IF cfg.override = NoOverride THEN Duration ELSE cfg.override)
                  ELSE cfg.cutoff
Times(cfg) == {Threshold(cfg) - b : b \in Before} \cup {Threshold(cfg) + a : a \in After} \cup {Now - Old, Now - Recent}

\* zero = TRUE: the containers without any lease (they get cases of their own: such containers
\* cannot be produced through the server API and distort the crawler's counters)
\* (a cancel secret can only be shared by two leases or more)
ShareClasses(cfg, zero) ==
  {c \in {[type |-> t, leases |-> l, sec |-> q] : t \in Types, q \in {"distinct", "shared"},
            l \in {x \in SUBSET Times(cfg) : IF zero THEN x = {} ELSE (x # {} /\ Cardinality(x) <= MaxLeases)}} :
     c.sec = "shared" => Cardinality(c.leases) >= 2}

SharesOf(cfg, zero) ==
  LET sq == SetToSeq(ShareClasses(cfg, zero)) IN
  {[id |-> i, type |-> sq[i].type, sec |-> sq[i].sec, leases |-> sq[i].leases] : i \in 1..Len(sq)}

Case(cfg, zero) ==
  LET sh == SharesOf(cfg, zero)
      after == Cycle(cfg, sh)
  IN [cfg |-> cfg, zero |-> zero, threshold |-> Threshold(cfg), shares |-> sh,
      expect |-> [survivors |-> after, examined |-> Examined(cfg, sh),
                  configured |-> ConfiguredCount(cfg, sh), actual |-> ActualCount(cfg, sh)],
      \* the next cycle, Shift later, over the survivors (their containers now have cancelled lease slots)
      expect2 |-> [survivors |-> CycleAt(cfg, after, Now + Shift)]]

Cases == {Case(cfg, z) : cfg \in Configs, z \in BOOLEAN}

ASSUME ndJsonSerialize(IOEnv.OUT_FILE, SetToSeq(Cases))

VARIABLE c
Init == c \in Cases
Next == UNCHANGED c
Spec == Init /\ [][Next]_c

C26_Disabled_OK == C26_Disabled(c.cfg, c.shares, c.expect.survivors)
C26_Exact_OK == C26_Exact(c.cfg, c.shares, c.expect.survivors)
C26_ValidLeasesKept_OK == C26_ValidLeasesKept(c.cfg, c.shares, c.expect.survivors)
\* cycles compose: two cycles leave what one cycle at the later time leaves
C26_CyclesCompose == c.expect2.survivors = CycleAt(c.cfg, c.shares, Now + Shift)
\* the table is not degenerate: with expiry enabled and both types selected something is deleted and something is kept
C26_NonTrivial == (c.cfg.enabled /\ c.cfg.types = Types /\ ~c.zero) =>
                    (c.expect.actual > 0 /\ Cardinality(c.expect.survivors) > 0)
=============================================================================
