-------------------------- MODULE TraceCrawlMore ---------------------------
(* Trace validation of the two crawlers of a real StorageServer (bucket_counter,
   lease_checker) against CrawlerMore.tla.  harness/storage_more_driver.py
   (profile "crawl") records one event per environment action:

     Add / Remove   a bucket directory appears (a real upload) / disappears, between slices
     Slice          one time slice of one crawler: the hook calls it made (which prefix /
                    bucket, for which cycle), how it ended (yield = time slice exceeded,
                    finished = cycle complete, killed = the process died inside the slice,
                    crash = an exception escaped), and what get_state() / get_stats() show
                    afterwards
     Kill / Stop    the process dies / stopService() while both crawlers sleep
     Restart        a new StorageServer on the same directory; what both crawlers show

   The Spec replays the hook calls with the operators of Crawler.tla / CrawlerMore.tla
   (where a slice ends is the environment's choice, everything else is determined) and
   compares the client-visible results: cycle numbers and position, last-complete-bucket-
   count and the total_bucket_count stat, the cycle-to-date examined-buckets counter, the
   history (which cycles, how many, examined-buckets, documented keys).

   consts.soft: clauses that are listed known findings; a deviation of that kind is printed as
   a VF_NOTE "K:..." and the code's value taken over (see TraceStorageMore.tla). *)
EXTENDS CrawlerMore, Json, IOUtils, TLCExt

Traces == JsonDeserialize(IOEnv.TRACE_FILE)

VARIABLES tid, l, bad,
          hist,       \* the lease checker's history file: cycle -> examined-buckets
          mid,        \* [bc, lc]: the crawler was restarted in the middle of the cycle it is working on
          broken      \* [bc, lc]: a waived known finding left this crawler dead; it is not judged any more
ctvars == <<tid, l, bad, disk, saved, V, pc, ev, hist, mid, broken>>

Events == Traces[tid].events
E == Events[l]

Soft(c) == c \in ToSet(Traces[tid].consts.soft)
Waived(e, c) == Soft(c) /\ PrintT(<<"VF_NOTE", tid, l, "K:" \o c \o ":" \o e.ev \o ":" \o ToString(tid) \o ":" \o ToString(l)>>)

LoadK(k, sv) == IF k = "bc" THEN BCLoad(sv) ELSE LCLoad(sv)
PersistK(k, v) == IF k = "bc" THEN BCPersist(v) ELSE LCPersist(v)
Kinds == {"bc", "lc"}

(* replay of the hook calls of one slice: every call must be the step the machine takes next *)
RECURSIVE RunHooks(_, _, _, _)
RunHooks(k, v, hs, i) ==
  IF i > Len(hs) THEN [ok |-> TRUE, v |-> v]
  ELSE LET h == hs[i] IN
       IF h[3] # v.cur THEN [ok |-> FALSE, v |-> v]
       ELSE IF k = "bc" THEN
              (IF h[1] = "prefix" /\ BCCanPrefix(v) /\ h[2] = v.lcpi + 1
                 THEN RunHooks(k, BCPrefix(disk, v), hs, i + 1) ELSE [ok |-> FALSE, v |-> v])
       ELSE IF h[1] = "bucket" THEN
              (IF LCCanProcess(disk, v) /\ h[2] = Head(Todo(disk, v))
                 THEN RunHooks(k, LCProcessBucket(disk, v), hs, i + 1) ELSE [ok |-> FALSE, v |-> v])
       ELSE (IF h[1] = "prefix" /\ LCCanFinishPrefix(disk, v) /\ h[2] = v.lcpi + 1
               THEN RunHooks(k, LCFinishPrefix(disk, v), hs, i + 1) ELSE [ok |-> FALSE, v |-> v])

\* a verdict: clause + the new values of everything a step may change
R(c, sv, vv, p, h, m, b) == [c |-> c, saved |-> sv, V |-> vv, pc |-> p, hist |-> h, mid |-> m, broken |-> b]
Same(c) == R(c, saved, V, pc, hist, mid, broken)

HistObsCycles(o) == {x.c : x \in ToSet(o.hist)}
HistObsOf(o, c) == CHOOSE x \in ToSet(o.hist) : x.c = c

\* what get_state() shows of the position (also judged by C27, needed here to stay in step)
PosOK(o, v) == o.lcf = v.lcf /\ o.cur = v.cur /\ o.lcp = v.lcpi

LCObsClause(o, v, h) ==
  IF ~PosOK(o, v) THEN "CR_position"
  ELSE IF v.cur # NoCycle /\ o.exam # v.exam THEN "LC_cycle_to_date_examined"
  ELSE IF Cardinality(HistObsCycles(o)) > MaxHist \/ Len(o.hist) > MaxHist THEN "LC_history_more_than_10"
  ELSE IF HistObsCycles(o) # DOMAIN h \/ Len(o.hist) # Cardinality(DOMAIN h) THEN "LC_history_cycles"
  ELSE IF \E c \in DOMAIN h : HistObsOf(o, c).exam # h[c] THEN "LC_history_examined"
  ELSE IF \E x \in ToSet(o.hist) : ~(HistKeys \subseteq ToSet(x.keys)) THEN "LC_history_keys"
  ELSE ""

BCObsClause(o, v) ==
  IF ~PosOK(o, v) THEN "CR_position"
  ELSE IF o.last # v.last THEN "BC_last_complete_bucket_count"
  ELSE IF o.stat # StatTotal(v) THEN "BC_total_bucket_count_stat"
  ELSE ""

VSlice(e) ==
  LET k == e.who
      v0 == V[k]
      v1 == IF k = "bc" THEN BCStartSlice(v0) ELSE LCStartSlice(v0)
      r == RunHooks(k, v1, e.hooks, 1)
      v2 == r.v
  IN IF broken[k] THEN (IF e.end = "killed"
                          THEN R("", saved, [x \in Kinds |-> LoadK(x, saved[x])], [x \in Kinds |-> "dead"], hist, mid, broken)
                          ELSE Same(""))
     ELSE IF pc[k] # "sleep" THEN Same("harness_slice_of_dead_crawler")
     ELSE IF e.end = "crash" THEN
            (IF k = "lc" /\ mid.lc THEN
               (IF Waived(e, "LC_midcycle_restart_breaks")
                  THEN R("", saved, V, pc, hist, mid, [broken EXCEPT !.lc = TRUE])
                  ELSE Same("LC_midcycle_restart_breaks"))
             ELSE IF k = "lc" /\ r.ok /\ LCCanProcess(disk, v2) /\ Head(Todo(disk, v2)) \notin disk THEN
               \* the next bucket of the cached listing is gone: the exception leaves the crawler without a timer
               \* until the next restart; what it had done in this slice stays in memory
               (IF Waived(e, "LC_vanished_bucket_stops")
                  THEN R("", saved, [V EXCEPT ![k] = [v2 EXCEPT !.at = "top"]], [pc EXCEPT ![k] = "stuck"], hist, mid, broken)
                  ELSE Same("LC_vanished_bucket_stops"))
             ELSE Same("CR_slice_raised_" \o e.exc))
     ELSE IF ~r.ok THEN Same("CR_hook_sequence")
     ELSE IF e.end = "killed" THEN
            R("", saved, [x \in Kinds |-> LoadK(x, saved[x])], [x \in Kinds |-> "dead"], hist, mid, broken)
     ELSE IF e.end = "yield" THEN
            (IF ~CanSliceEnd(v2) THEN Same("CR_yield_without_progress")
             ELSE LET v3 == [v2 EXCEPT !.at = "top"]
                      c == IF k = "bc" THEN BCObsClause(e.obs, v3) ELSE LCObsClause(e.obs, v3, hist)
                  IN IF c # "" THEN Same(c)
                     ELSE R("", [saved EXCEPT ![k] = PersistK(k, v2)], [V EXCEPT ![k] = v3], pc, hist, mid, broken))
     ELSE IF e.end = "finished" THEN
            (IF ~CanFinishCycle(v2) THEN Same("CR_cycle_finished_early")
             ELSE LET v3 == IF k = "bc" THEN BCFinishCycle(v2) ELSE LCFinishCycle(v2)
                      h3 == IF k = "bc" THEN hist ELSE HistAdd(hist, v2.cur, v2.exam)
                      c == IF k = "bc" THEN BCObsClause(e.obs, v3) ELSE LCObsClause(e.obs, v3, h3)
                      m3 == [mid EXCEPT ![k] = FALSE]
                      lost == k = "bc" /\ c = "BC_last_complete_bucket_count" /\ mid.bc /\ e.obs.last = v0.last
                  IN IF lost /\ ~Waived(e, "BC_restarted_cycle_count_lost") THEN Same("BC_restarted_cycle_count_lost")
                     ELSE IF lost THEN
                          \* the stale count is taken over; everything else must still agree
                          LET v4 == [v3 EXCEPT !.last = e.obs.last]
                              c4 == BCObsClause(e.obs, v4)
                          IN IF c4 # "" THEN Same(c4)
                             ELSE R("", [saved EXCEPT ![k] = PersistK(k, v4)], [V EXCEPT ![k] = v4], pc, h3, m3, broken)
                     ELSE IF c # "" THEN Same(c)
                     ELSE R("", [saved EXCEPT ![k] = PersistK(k, v3)], [V EXCEPT ![k] = v3], pc, h3, m3, broken))
     ELSE Same("unknown_slice_end")

VRestart(e) ==
  LET vv == [x \in Kinds |-> LoadK(x, saved[x])]
      m == [x \in Kinds |-> saved[x].cur # NoCycle]
      bcc == IF broken.bc THEN "" ELSE BCObsClause(e.obs.bc, vv.bc)
      lcraised == "crash" \in DOMAIN e.obs.lc
      lcc == IF broken.lc \/ lcraised THEN "" ELSE LCObsClause(e.obs.lc, vv.lc, hist)
  IN IF \E x \in Kinds : pc[x] # "dead" THEN Same("harness_restart_of_live_server")
     ELSE IF bcc # "" THEN Same("BC_restart_" \o bcc)
     ELSE IF lcraised /\ ~broken.lc THEN
            (IF m.lc THEN
               (IF Waived(e, "LC_midcycle_restart_breaks")
                  THEN R("", saved, vv, [x \in Kinds |-> "sleep"], hist, m, [broken EXCEPT !.lc = TRUE])
                  ELSE Same("LC_midcycle_restart_breaks"))
             ELSE Same("LC_get_state_raised_" \o e.obs.lc.crash))
     ELSE IF lcc # "" THEN Same("LC_restart_" \o lcc)
     ELSE R("", saved, vv, [x \in Kinds |-> "sleep"], hist, m, broken)

VKill(e) ==
  IF \E x \in Kinds : pc[x] \notin {"sleep", "stuck"} THEN Same("harness_kill_of_dead_server")
  ELSE R("", saved, [x \in Kinds |-> LoadK(x, saved[x])], [x \in Kinds |-> "dead"], hist, mid, broken)

\* stopService(): both crawlers save their state first
VStop(e) ==
  IF \E x \in Kinds : pc[x] \notin {"sleep", "stuck"} THEN Same("harness_stop_of_dead_server")
  ELSE LET sv == [x \in Kinds |-> IF broken[x] THEN saved[x] ELSE PersistK(x, V[x])]
       IN R("", sv, [x \in Kinds |-> LoadK(x, sv[x])], [x \in Kinds |-> "dead"], hist, mid, broken)

Verdict(e) ==
  CASE e.ev = "Slice"   -> VSlice(e)
    [] e.ev = "Restart" -> VRestart(e)
    [] e.ev = "Kill"    -> VKill(e)
    [] e.ev = "Stop"    -> VStop(e)
    [] e.ev \in {"Add", "Remove"} -> Same("")
    [] e.ev = "Crash"   -> Same("MORE_unexpected_exception_" \o e.exc)
    [] OTHER            -> Same("unknown_event")

NewDisk(e) == IF e.ev = "Add" THEN disk \cup {e.b} ELSE IF e.ev = "Remove" THEN disk \ {e.b} ELSE disk

TraceInit ==
  /\ tid \in 1..Len(Traces)
  /\ l = 1 /\ bad = "none"
  /\ disk = ToSet(Traces[tid].consts.disk0)
  /\ saved = [bc |-> BCDefaultSaved, lc |-> LCDefaultSaved]
  /\ V = [bc |-> BCLoad(BCDefaultSaved), lc |-> LCLoad(LCDefaultSaved)]
  /\ pc = [bc |-> "sleep", lc |-> "sleep"]
  /\ ev = "init"
  /\ hist = <<>>
  /\ mid = [bc |-> FALSE, lc |-> FALSE]
  /\ broken = [bc |-> FALSE, lc |-> FALSE]

TraceNext ==
  /\ bad = "none"
  /\ l <= Len(Events)
  /\ \E v \in {Verdict(E)} :       \* bound once (a LET would be re-evaluated at every use)
     LET d == NewDisk(E)
         c == IF v.c # "" THEN v.c
              ELSE IF ToSet(E.disk) # d THEN "harness_disk_mismatch"
              ELSE ""
     IN IF c = ""
          THEN /\ saved' = v.saved /\ V' = v.V /\ pc' = v.pc /\ hist' = v.hist /\ mid' = v.mid /\ broken' = v.broken
               /\ disk' = d /\ ev' = E.ev
               /\ l' = l + 1 /\ bad' = "none"
               /\ (l = Len(Events) => PrintT(<<"VF_ACCEPT", tid, l>>))
          ELSE /\ bad' = c /\ UNCHANGED <<l, disk, saved, V, pc, ev, hist, mid, broken>>
               /\ PrintT(<<"VF_REJECT", tid, l, c>>)
  /\ UNCHANGED tid

TraceSpec == TraceInit /\ [][TraceNext]_ctvars
TraceOK == bad = "none"
=============================================================================
